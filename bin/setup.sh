#!/bin/sh
# Offline setup: warm the Go build cache for the test binary (plain and -race)
# and the real binary. Everything is rebuilt from /repo by every check anyway.
set -eu
V="$(cd "$(dirname "$0")/.." && pwd)"
REPO="${VERIF_REPO:-/repo}"
W="$(mktemp -d -t verif-setup-XXXXXX)"
trap 'rm -rf "$W"' EXIT
printf 'go 1.23\n\nuse (\n\t%s\n\t%s\n\t%s\n)\n' "$REPO" "$REPO/cmd/hranoprovod-cli" "$V/harness" > "$W/go.work"
[ -f "$V/harness/go.work.sum" ] && cp "$V/harness/go.work.sum" "$W/go.work.sum"
python3 - "$W" "$V" "$REPO" <<'PY'
import glob, json, os, sys
w, v, repo = sys.argv[1:4]
ov = {"Replace": {os.path.join(repo, "cmd/hranoprovod-cli", "zz_" + os.path.basename(p)): p
                  for p in sorted(glob.glob(os.path.join(v, "harness/mainpkg/verif_*_test.go")))}}
json.dump(ov, open(os.path.join(w, "overlay.json"), "w"))
PY
export GOWORK="$W/go.work" GOFLAGS= GOPROXY=off GOSUMDB=off GOTOOLCHAIN=local
PKG=github.com/aquilax/hranoprovod-cli/cmd/hranoprovod-cli/v3
cd "$W"
go test -c -vet=off -tags verif -overlay "$W/overlay.json" -o "$W/verif.test" $PKG
go test -c -race -vet=off -tags verif -overlay "$W/overlay.json" -o "$W/verif.race.test" $PKG
CGO_ENABLED=0 go build -tags verif -o "$W/hranoprovod-cli" $PKG
mkdir -p "$V/evidence"
echo "setup ok"
