#!/bin/sh
# Runs the repository's own test suite with the verif guard OFF (no -tags verif,
# no overlay), through an external go.work so that /repo/go.work.sum is never
# rewritten. Prints the `go test -json` stream; exits non-zero if any test fails.
set -u
REPO="${VERIF_REPO:-/repo}"
W="$(mktemp -d -t verif-baseline-XXXXXX)"
trap 'rm -rf "$W"' EXIT
printf 'go 1.17\n\nuse (\n\t%s\n\t%s\n)\n' "$REPO" "$REPO/cmd/hranoprovod-cli" > "$W/go.work"
[ -f "$REPO/go.work.sum" ] && cp "$REPO/go.work.sum" "$W/go.work.sum"
export GOWORK="$W/go.work" GOFLAGS= GOPROXY=off GOSUMDB=off GOTOOLCHAIN=local
rc=0
for m in . cmd/hranoprovod-cli; do
  (cd "$REPO/$m" && go test -json -vet=off -count=1 -timeout 25m ./...) || rc=1
done
exit $rc
