//go:build go1.21

package main

// C16 — settings follow flag > environment > configuration file > default.

import (
	"bytes"
	"fmt"
	"os"
	"os/exec"
	"path/filepath"
	"strings"
	"syscall"
	"testing"
	"time"

	"pgregory.net/rapid"
)

// a source value: 0 = not given, 1..4 = one of four distinguishable values,
// 5 (flag/env only) = the documented default value given explicitly and
// literally ("food.yaml", "log.yaml", "2006/01/02", 10): it must still beat
// the configuration file.
type c16Src struct {
	Flag int `json:"flag,omitempty"`
	Env  int `json:"env,omitempty"`
	Cfg  int `json:"cfg,omitempty"`
}

type c16Case struct {
	Book       c16Src `json:"book"`
	Log        c16Src `json:"log"`
	Fmt        c16Src `json:"fmt"`
	Depth      c16Src `json:"depth"`
	Today      c16Src `json:"today"`      // Env unused: the setting has no environment variable
	Channel    string `json:"channel"`    // how the configuration file is named: "none" | "flag" | "env" | "default"
	CfgMissing bool   `json:"cfgmissing"` // the explicitly named file does not exist
	NoDatabase bool   `json:"nodatabase"`
	DecoyFood  bool   `json:"decoyfood"` // a food.yaml exists in the working directory
	EqualsForm bool   `json:"equalsform"`
	CfgFifo    bool   `json:"cfgfifo,omitempty"`  // the configuration file is a named pipe
	CfgSymlink bool   `json:"cfgsymlink"`         // the configuration file is a symbolic link to the real file
	CfgPad     int    `json:"cfgpad"`             // bytes of comment lines before the first section of the configuration file
	NoDBFalse  bool   `json:"nodbfalse"`          // --no-database=false is given: must behave as if the switch were absent
	Dollar     bool   `json:"dollar"`             // the file names contain $HOME / ${USER}: they are names, not references
	NowStyle   int    `json:"nowstyle,omitempty"` // how the Now entry of the configuration file is written: 0 midnight Z, 1 01:30+02:00, 2 22:30-05:00, 3 midnight +00:00
	CfgStyle   int    `json:"cfgstyle,omitempty"` // layout of the configuration file: 0 plain, 1 lower case with blanks, 2 CRLF, 3 quoted values, 4 comments and indentation
	HomeBin    bool   `json:"homebin,omitempty"`  // Channel none: run the real binary under the private home directory
	CfgRel     bool   `json:"cfgrel,omitempty"`   // the configuration file is named relative to the working directory, through a link to a directory and back up
	OddNames   int    `json:"oddnames,omitempty"` // 1, 2: the data files have short names relative to the working directory that look like something else ("-", "--", "~", "*", "%s"): they are file names
	DepthMul   int    `json:"depthmul,omitempty"` // >1: the four distinguishable depth values are 1..4 times this factor (depths far above the default)
}

var c16Formats = []string{"2006/01/02", "2006-01-02", "02.01.2006", "2006/02/01", "02/01/2006", "2006/01/02"} // index 0 = default, 5 = default given explicitly

func c16Pick(s c16Src, hasCfg bool, def int) (val int, level string) {
	switch {
	case s.Flag != 0:
		return s.Flag, "flag"
	case s.Env != 0:
		return s.Env, "env"
	case hasCfg && s.Cfg != 0:
		return s.Cfg, "config"
	}
	return def, "default"
}

// c16TodayDay: the day a source value of the current-date setting stands for; value 4 is 0001/01/01, the first day of the
// calendar (and the zero value of the program's time type: it must not be taken for "not given"). NowStyle writes the
// configuration entry with a zone offset whose UTC reading falls on the neighbouring day.
func c16TodayDay(base, idx int) int {
	if idx == 4 {
		return vZeroDay
	}
	return base + idx
}

func c16BookText(k int) string {
	return fmt.Sprintf("marker%d:\n  x: %d\nr0:\n  r1: 2\nr1:\n  x: 3\n", k, k)
}

func c16LogText(k int, layout string) string {
	return fmt.Sprintf("%s:\n  logmarker%d: %d\n%s:\n  logmarker%d: 1\n", vFmtDay(41, layout), k, k, vFmtDay(43, layout), k)
}

type c16Run struct {
	out, err string
	failed   bool
}

func checkC16(c c16Case, ctx *vCtx) *vFailure {
	hasCfg := c.Channel != "none" && !c.CfgMissing
	fmtIdx, fmtLevel := c16Pick(c.Fmt, hasCfg, 0)
	layout := c16Formats[fmtIdx]
	depthVal := func(v int) int {
		switch {
		case v == 5:
			return 10
		case v == 6:
			return 0 // a depth of zero given explicitly: nothing resolves
		case c.DepthMul > 1:
			return v * c.DepthMul
		}
		return v
	}
	depthText := func(v int) string { return fmt.Sprint(depthVal(v)) }
	bookK, bookLevel := c16Pick(c.Book, hasCfg, 5)
	logK, logLevel := c16Pick(c.Log, hasCfg, 5)
	depthIdx, depthLevel := c16Pick(c.Depth, hasCfg, 10)
	if depthLevel != "default" {
		depthIdx = depthVal(depthIdx)
	}
	if depthIdx > 11 {
		ctx.Label("depth>11")
	}
	todaySrc := c.Today
	todaySrc.Env = 0
	todayIdx, todayLevel := c16Pick(todaySrc, hasCfg, 0)

	// working directory with the default-level files
	root := filepath.Join(vScratchDir(), "c16")
	_ = os.RemoveAll(root)
	cwd := filepath.Join(root, "cwd")
	home := filepath.Join(root, "home")
	for _, d := range []string{cwd, filepath.Join(home, ".hranoprovod")} {
		if err := os.MkdirAll(d, 0o755); err != nil {
			vFault("mkdir: %v", err)
		}
	}
	write := func(p, s string) {
		if !filepath.IsAbs(p) {
			p = cwd + "/" + p // names relative to the working directory of the run (not cleaned: the kernel resolves them)
		}
		if err := os.WriteFile(p, []byte(s), 0o644); err != nil {
			vFault("write: %v", err)
		}
	}
	if c.OddNames == 3 || c.CfgRel {
		// "current" is a symbolic link to a directory two levels down: a name that goes through it and back up
		// ("current/../x") denotes books/x, not ./x
		for _, base := range []string{root, cwd} {
			if err := os.MkdirAll(filepath.Join(base, "books", "2024"), 0o755); err != nil {
				vFault("mkdir: %v", err)
			}
			if err := os.Symlink(filepath.Join("books", "2024"), filepath.Join(base, "current")); err != nil {
				vFault("symlink: %v", err)
			}
		}
	}
	oddA, oddB := []string{"-", "~", "*", "%s"}, []string{"@", "--", "$X", "~user"}
	if c.OddNames != 0 {
		ctx.Labelf("odd-file-names=%d", c.OddNames)
	}
	bookPath := func(k int) string {
		if k == 5 {
			return filepath.Join(cwd, "food.yaml")
		}
		switch c.OddNames {
		case 1:
			return oddA[k-1]
		case 2:
			return oddB[k-1]
		case 3:
			return root + "/current/../" + fmt.Sprintf("book-%d.yaml", k)
		}
		if c.Dollar {
			return filepath.Join(root, fmt.Sprintf("book-$HOME-${USER}-%d.yaml", k))
		}
		return filepath.Join(root, fmt.Sprintf("book-%d.yaml", k))
	}
	logPath := func(k int) string {
		if k == 5 {
			return filepath.Join(cwd, "log.yaml")
		}
		switch c.OddNames {
		case 1:
			return oddB[k-1]
		case 2:
			return oddA[k-1]
		case 3:
			return "current/../" + fmt.Sprintf("log-%d.yaml", k) // relative to the working directory
		}
		if c.Dollar {
			return filepath.Join(root, fmt.Sprintf("log-$PATH-%d.yaml", k))
		}
		return filepath.Join(root, fmt.Sprintf("log-%d.yaml", k))
	}
	for k := 1; k <= 5; k++ {
		if k == 5 && !c.DecoyFood && bookK != 5 {
			continue
		}
		write(bookPath(k), c16BookText(k))
	}
	for k := 1; k <= 5; k++ {
		write(logPath(k), c16LogText(k, layout))
	}
	if c.OddNames == 3 {
		// what the cleaned names would denote holds other content
		for k := 1; k <= 4; k++ {
			write(filepath.Join(root, fmt.Sprintf("book-%d.yaml", k)), c16BookText(k%4+1))
			write(filepath.Join(cwd, fmt.Sprintf("log-%d.yaml", k)), c16LogText(k%4+1, layout))
		}
	}
	// files that are none of the program's business: a configuration file at a place the documentation does not name,
	// and namesakes of the data files beside the configuration file (a relative name is relative to the working
	// directory, wherever the configuration file lives)
	if err := os.MkdirAll(filepath.Join(home, ".config", "hranoprovod"), 0o755); err != nil {
		vFault("mkdir: %v", err)
	}
	strayCfg := "[Global]\nDbFileName=" + filepath.Join(root, "stray-book.yaml") + "\nLogFileName=" + filepath.Join(root, "stray-log.yaml") + "\nDateFormat=02/01/2006\nNow=2019-09-09T00:00:00Z\n[Resolver]\nMaxDepth=1\n"
	write(filepath.Join(home, ".config", "hranoprovod", "config"), strayCfg)
	write(filepath.Join(home, ".hranoprovodrc"), strayCfg)
	write(filepath.Join(cwd, ".hranoprovod"), strayCfg)
	write(filepath.Join(cwd, "config"), strayCfg)
	for _, besideCfg := range []string{root, filepath.Join(home, ".hranoprovod")} {
		for _, nm := range append(append([]string{"food.yaml", "log.yaml"}, oddA...), oddB...) {
			if _, err := os.Lstat(filepath.Join(besideCfg, nm)); err != nil {
				write(filepath.Join(besideCfg, nm), "2021/07/07:\n  stray~: 7\nstray~:\n  stray~x: 7\n")
			}
		}
	}
	write(filepath.Join(root, "empty.yaml"), "")
	// configuration file
	var cfg strings.Builder
	for cfg.Len() < c.CfgPad {
		cfg.WriteString("; hranoprovod configuration - this line is a comment and only makes the file longer ........\n")
	}
	// the same entries in the layouts an INI file may have: plain, lower-case names with blanks around "=", CRLF line
	// ends, quoted values, comment lines and trailing comments with indentation
	eol := "\n"
	if c.CfgStyle == 2 {
		eol = "\r\n"
	}
	section := func(name string) {
		switch c.CfgStyle {
		case 1:
			cfg.WriteString("[" + strings.ToLower(name) + "]" + eol)
		case 4:
			cfg.WriteString("# settings of " + name + eol + "[" + name + "] ; section" + eol + eol)
		default:
			cfg.WriteString("[" + name + "]" + eol)
		}
	}
	kv := func(key, val string) {
		switch c.CfgStyle {
		case 1:
			cfg.WriteString(strings.ToLower(key) + " = " + val + eol)
		case 3:
			cfg.WriteString(key + "=\"" + val + "\"" + eol)
		case 4:
			cfg.WriteString("  " + key + " = " + val + " ; as wanted" + eol + "; " + key + "=/nowhere" + eol)
		default:
			cfg.WriteString(key + "=" + val + eol)
		}
	}
	if c.CfgStyle != 0 {
		ctx.Labelf("config-style=%d", c.CfgStyle)
	}
	section("Global")
	if c.Book.Cfg != 0 {
		kv("DbFileName", bookPath(c.Book.Cfg))
	}
	if c.Log.Cfg != 0 {
		kv("LogFileName", logPath(c.Log.Cfg))
	}
	if c.Fmt.Cfg != 0 {
		kv("DateFormat", c16Formats[c.Fmt.Cfg])
	}
	if c.Today.Cfg != 0 {
		y, m, d := vCivil(c16TodayDay(60, c.Today.Cfg))
		clock := "T00:00:00Z"
		if c.Today.Cfg != 4 {
			clock = []string{"T00:00:00Z", "T01:30:00+02:00", "T22:30:00-05:00", "T00:00:00+00:00"}[c.NowStyle%4]
		}
		kv("Now", fmt.Sprintf("%04d-%02d-%02d%s", y, m, d, clock))
	}
	if c.Depth.Cfg != 0 {
		section("Resolver")
		kv("MaxDepth", fmt.Sprint(depthVal(c.Depth.Cfg)))
	}
	cfgPath := filepath.Join(root, "my.conf")
	if c.Channel == "default" {
		cfgPath = filepath.Join(home, ".hranoprovod", "config")
	}
	cfgName := cfgPath // the name handed to the program
	if c.CfgRel && (c.Channel == "flag" || c.Channel == "env") && !c.CfgFifo && !c.CfgSymlink {
		// a relative name that goes through a link to a directory and back up: it denotes books/my.conf under the
		// working directory (the file ./my.conf, if any, is another file)
		cfgPath = filepath.Join(cwd, "books", "my.conf")
		cfgName = "current/../my.conf"
		ctx.Label("config-name-through-link")
	}
	if c.Channel != "none" && !c.CfgMissing {
		if c.CfgFifo && (c.Channel == "flag" || c.Channel == "env") {
			// the configuration file is a named pipe (what `--config <(...)` hands to a program): its size is 0, its content
			// is whatever is written to it while the program reads
			if err := syscall.Mkfifo(cfgPath, 0o644); err != nil {
				vFault("mkfifo: %v", err)
			}
			ctx.Label("config-is-fifo")
		} else if c.CfgSymlink {
			real := filepath.Join(root, "dotfiles-config")
			write(real, cfg.String())
			if err := os.Symlink(real, cfgPath); err != nil {
				vFault("symlink: %v", err)
			}
			ctx.Label("config-is-symlink")
		} else {
			write(cfgPath, cfg.String())
		}
	}
	var global []string
	env := map[string]string{}
	flag := func(name, val string) {
		if c.EqualsForm {
			global = append(global, "--"+name+"="+val)
		} else {
			global = append(global, "--"+name, val)
		}
	}
	switch c.Channel {
	case "flag":
		flag("config", cfgName)
	case "env":
		env["HR_CONFIG"] = cfgName
	}
	given := func(k int, def string, path func(int) string) string {
		if k == 5 {
			return def // the default name, literally, relative to the working directory
		}
		return path(k)
	}
	if c.Book.Flag != 0 {
		flag("database", given(c.Book.Flag, "food.yaml", bookPath))
	}
	if c.Book.Env != 0 {
		env["HR_DATABASE"] = given(c.Book.Env, "food.yaml", bookPath)
	}
	if c.Log.Flag != 0 {
		flag("logfile", given(c.Log.Flag, "log.yaml", logPath))
	}
	if c.Log.Env != 0 {
		env["HR_LOGFILE"] = given(c.Log.Env, "log.yaml", logPath)
	}
	if c.Fmt.Flag != 0 {
		flag("date-format", c16Formats[c.Fmt.Flag])
	}
	if c.Fmt.Env != 0 {
		env["HR_DATE_FORMAT"] = c16Formats[c.Fmt.Env]
	}
	if c.Depth.Flag != 0 {
		flag("maxdepth", depthText(c.Depth.Flag))
	}
	if c.Depth.Env != 0 {
		env["HR_MAXDEPTH"] = depthText(c.Depth.Env)
	}
	if c.Today.Flag != 0 {
		flag("today", vFmtDay(c16TodayDay(40, c.Today.Flag), layout))
	}
	if c.NoDatabase {
		global = append(global, "--no-database")
	} else if c.NoDBFalse {
		global = append(global, []string{"--no-database=false", "--no-database=0"}[len(global)%2])
	}

	// HomeBin: no configuration file anywhere the documentation names, the real binary under a private home directory
	// (which holds stray files at places the documentation does not name)
	useBin := c.Channel == "default" || (c.Channel == "none" && c.HomeBin)
	if c.Channel == "none" && c.HomeBin {
		ctx.Label("no-config-real-binary-private-home")
	}
	run := func(args ...string) c16Run {
		all := append(append([]string{}, global...), args...)
		ctx.Run(1)
		if !useBin {
			if c.CfgFifo && (c.Channel == "flag" || c.Channel == "env") && !c.CfgMissing {
				wdone := make(chan struct{})
				go func() {
					defer close(wdone)
					f, err := os.OpenFile(cfgPath, os.O_WRONLY, 0)
					if err != nil {
						return
					}
					_, _ = f.WriteString(cfg.String())
					f.Close()
				}()
				defer func() {
					// unblock the writer if the program never opened the pipe
					if f, err := os.OpenFile(cfgPath, os.O_RDONLY|syscall.O_NONBLOCK, 0); err == nil {
						f.Close()
					}
					<-wdone
				}()
			}
			if c.CfgFifo && (c.Channel == "flag" || c.Channel == "env") && !c.CfgMissing {
				// through the real binary: a process that runs one invocation (in process, the descriptor the previous
				// invocation left open on the pipe would swallow what is written for the next one)
				b := vRunBin(vInvocation{Args: all, Env: env, Cwd: cwd}, 30*time.Second)
				if b.Exit == -999 {
					vHang("the real binary did not terminate within 30 s with its configuration file given as a named pipe")
				}
				return c16Run{b.Stdout, strings.TrimSpace(b.Stderr), b.Failed}
			}
			r := vRunApp(vInvocation{Args: all, Env: env, Cwd: cwd})
			if r.Panic != "" {
				return c16Run{r.Stdout, "panic: " + r.Panic, true}
			}
			return c16Run{r.Stdout, r.Err, r.Failed}
		}
		// the default location is $HOME/.hranoprovod/config of the current user: run the
		// real binary under an unused uid (no passwd entry) with a private HOME
		cmd := exec.Command(vRealBin, all...)
		cmd.Dir = cwd
		cmd.Env = []string{"PATH=/usr/bin:/bin", "HOME=" + home, "USER=verifuser", "TZ=UTC"}
		for k, v := range env {
			cmd.Env = append(cmd.Env, k+"="+v)
		}
		cmd.SysProcAttr = &syscall.SysProcAttr{Credential: &syscall.Credential{Uid: 54321, Gid: 54321}}
		var so, se bytes.Buffer
		cmd.Stdout, cmd.Stderr = &so, &se
		done := make(chan error, 1)
		if err := cmd.Start(); err != nil {
			vFault("cannot run the real binary under uid 54321: %v", err)
		}
		go func() { done <- cmd.Wait() }()
		select {
		case err := <-done:
			return c16Run{so.String(), strings.TrimSpace(se.String()), err != nil}
		case <-time.After(30 * time.Second):
			_ = cmd.Process.Kill()
			<-done
			vHang("the real binary did not terminate within its time limit")
		}
		return c16Run{}
	}

	// labels
	ctx.Label("channel:" + c.Channel)
	for name, lv := range map[string]string{"book": bookLevel, "log": logLevel, "format": fmtLevel, "depth": depthLevel, "today": todayLevel} {
		ctx.Label(name + "<-" + lv)
	}
	multi := func(s c16Src) bool {
		n := 0
		vals := map[int]bool{}
		for _, v := range []int{s.Flag, s.Env, s.Cfg} {
			if v != 0 {
				n++
				vals[v] = true
			}
		}
		return n >= 2 && len(vals) >= 2
	}
	ctx.NonTrivial(multi(c.Book) || multi(c.Log) || multi(c.Fmt) || multi(c.Depth) || multi(c.Today) || c.CfgMissing || c.NoDatabase)
	desc := fmt.Sprintf("args %v env %v config(%s)=%q", global, env, c.Channel, cfg.String())

	// an explicitly named configuration file that does not exist is an error
	if c.CfgMissing && (c.Channel == "flag" || c.Channel == "env") {
		for _, cmd := range [][]string{{"report", "quantity"}, {"lint", logPath(1)}, {"lint", "--silent", bookPath(1)}, {"stats"}, {"print"}, {"csv", "log"}, {"csv", "database"},
			{"csv", "database-resolved"}, {"reg"}, {"bal"}, {"summary", vFmtDay(41, layout)}, {"report", "totals"}, {"report", "unresolved"}, {"report", "element-total", "x"}} {
			r := run(cmd...)
			if !r.failed {
				return vFailSig("C16/missing-explicit-config-accepted", "%s: the explicitly named configuration file %s does not exist, yet %v succeeds", desc, cfgPath, cmd)
			}
		}
		return nil
	}

	// 1. which book is read (raw export, independent of the depth)
	if c.NoDatabase {
		for _, cmd := range [][]string{{"csv", "database"}, {"csv", "database-resolved"}, {"reg", "--no-color"}, {"bal"}, {"bal", "-s", "x"}, {"report", "unresolved"}, {"report", "totals"}, {"report", "element-total", "x"}, {"summary", vFmtDay(41, layout)}} {
			got := run(cmd...)
			// reference: the same settings with an explicitly empty book instead of --no-database
			saved := global
			var ref []string
			for i := 0; i < len(global); i++ {
				if global[i] == "--no-database" {
					continue
				}
				ref = append(ref, global[i])
			}
			global = append(ref, "--database", filepath.Join(root, "empty.yaml"))
			want := run(cmd...)
			global = saved
			if want.failed {
				vFault("C16: reference run with an empty book failed: %s (%s)", want.err, desc)
			}
			if got.failed || got.out != want.out {
				return vFailSig("C16/no-database-ignored", "%s: %v with --no-database gives failed=%v %q\n%s\nbut with an empty recipe book:\n%s", desc, cmd, got.failed, got.err, vTrunc(got.out, 800), vTrunc(want.out, 800))
			}
		}
	} else {
		r := run("csv", "database")
		if r.failed {
			return vFailSig(c16Sig(c), "%s: csv database failed: %s (expected the book chosen by %s: %s)", desc, r.err, bookLevel, bookPath(bookK))
		}
		want := fmt.Sprintf("marker%d,x,%d.00\n", bookK, bookK)
		if !strings.HasPrefix(r.out, want) {
			return vFailSig(c16Sig(c), "%s: the recipe book read is not the one given by the %s level (%s); csv database prints:\n%s", desc, bookLevel, bookPath(bookK), vTrunc(r.out, 400))
		}
		// 4. depth: the book has a chain of two references: fails iff N <= 2
		rr := run("csv", "database-resolved")
		wantFail := depthIdx <= 2
		if rr.failed != wantFail {
			return vFailSig(c16Sig(c), "%s: resolve depth should be %d (from %s): expected failure=%v, got failure=%v (%s)", desc, depthIdx, depthLevel, wantFail, rr.failed, rr.err)
		}
		if rr.failed && !vIsDepthError(rr.err) {
			return vFailf("%s: csv database-resolved failed with %q, expected the depth error", desc, rr.err)
		}
		// probe the effective depth exactly: books with one chain of H references fail iff H >= N
		probes := []int{1, 2, 3, 4, 5, 9, 10, 11}
		if depthIdx > 11 {
			probes = append(probes, 12, 64, 99, 100, 101, 127, 128, 255, 256, depthIdx-1, depthIdx, depthIdx+1)
		}
		for _, h := range probes {
			var pb strings.Builder
			for i := 0; i < h; i++ {
				next := fmt.Sprintf("p%d", i+1)
				if i == h-1 {
					next = "leaf"
				}
				fmt.Fprintf(&pb, "p%d:\n  %s: 1\n", i, next)
			}
			pp := filepath.Join(root, fmt.Sprintf("probe-%d.yaml", h))
			write(pp, pb.String())
			saved := global
			global = append(append([]string{}, global...), "--database", pp) // a repeated flag: the last value wins
			pr := run("csv", "database-resolved")
			global = saved
			if pr.failed != (h >= depthIdx) {
				return vFailSig(c16Sig(c), "%s: the resolve depth should be %d (from %s), but a book with a chain of %d references gives failure=%v (%s)", desc, depthIdx, depthLevel, h, pr.failed, pr.err)
			}
		}
	}
	// 2. which log is read, 3. in which date format
	q := run("report", "quantity")
	if q.failed {
		return vFailSig(c16Sig(c), "%s: report quantity failed: %s (the log %s is written in the date format %q chosen by %s)", desc, q.err, logPath(logK), layout, fmtLevel)
	}
	if !strings.Contains(q.out, fmt.Sprintf("\tlogmarker%d\n", logK)) {
		return vFailSig(c16Sig(c), "%s: the log read is not the one given by the %s level (%s); report quantity prints:\n%s", desc, logLevel, logPath(logK), vTrunc(q.out, 400))
	}
	p := run("print")
	if p.failed || !strings.HasPrefix(p.out, vFmtDay(41, layout)+":\n") {
		return vFailSig(c16Sig(c), "%s: print should write dates in the format %q chosen by %s; got failed=%v:\n%s", desc, layout, fmtLevel, p.failed, vTrunc(p.out, 300))
	}
	// date arguments are read in that format too: the first record's date as both bounds selects exactly that record
	if sel := run("csv", "log", "-b", vFmtDay(41, layout), "-e", vFmtDay(41, layout)); sel.failed || strings.Count(sel.out, "\n") != 1 {
		return vFailSig(c16Sig(c), "%s: csv log -b %s -e %s should select the one record of that day (date format %q chosen by %s); got failed=%v (%s):\n%s", desc, vFmtDay(41, layout), vFmtDay(41, layout), layout, fmtLevel, sel.failed, sel.err, vTrunc(sel.out, 300))
	}
	// 5. today
	st := run("stats")
	{
		if st.failed {
			return vFailSig(c16Sig(c), "%s: stats failed: %s", desc, st.err)
		}
		so := vReadStats(st.out)
		if c.NoDatabase && so.DbRecords != "0" {
			return vFailSig("C16/no-database-ignored", "%s: stats with --no-database counts %s recipes; an empty recipe book has none", desc, so.DbRecords)
		}
		if so.First != vFmtDay(41, layout) || so.Last != vFmtDay(43, layout) || so.LogRecords != "2" {
			return vFailSig(c16Sig(c), "%s: stats shows first/last record %q / %q (%s records), the log has 2 records dated %s and %s in the format chosen by %s", desc, so.First, so.Last, so.LogRecords, vFmtDay(41, layout), vFmtDay(43, layout), fmtLevel)
		}
		switch todayLevel {
		case "flag":
			if so.Today != vFmtDay(c16TodayDay(40, todayIdx), layout) {
				return vFailSig(c16Sig(c), "%s: stats shows today = %q, expected %s from the flag", desc, so.Today, vFmtDay(c16TodayDay(40, todayIdx), layout))
			}
		case "config":
			if so.Today != vFmtDay(c16TodayDay(60, todayIdx), layout) {
				return vFailSig(c16Sig(c), "%s: stats shows today = %q, expected %s from the configuration file (the date as written there)", desc, so.Today, vFmtDay(c16TodayDay(60, todayIdx), layout))
			}
		default:
			now := time.Now().UTC()
			ok := false
			for d := -1; d <= 1; d++ {
				t := now.AddDate(0, 0, d)
				if so.Today == t.Format(layout) {
					ok = true
				}
			}
			if !ok {
				return vFailSig(c16Sig(c), "%s: stats shows today = %q although neither flag nor configuration set it (wall clock expected)", desc, so.Today)
			}
		}
		// selection through -b today -e today
		if todayLevel != "default" {
			base := 40
			if todayLevel == "config" {
				base = 60
			}
			sel := run("-b", "today", "-e", "today", "csv", "log")
			wantRows := 0
			for _, d := range []int{41, 43} {
				if d == c16TodayDay(base, todayIdx) && !(todayLevel == "config" && (c.NowStyle%4 == 1 || c.NowStyle%4 == 2)) { // an instant inside the day is on no record
					wantRows++
				}
			}
			if sel.failed || strings.Count(sel.out, "\n") != wantRows {
				return vFailSig(c16Sig(c), "%s: -b today -e today selects %d rows, expected %d (today from %s)", desc, strings.Count(sel.out, "\n"), wantRows, todayLevel)
			}
		}
	}
	return nil
}

func c16Sig(c c16Case) string {
	if c.Channel != "none" && !c.CfgMissing && (c.Book.Cfg != 0 || c.Log.Cfg != 0 || c.Fmt.Cfg != 0 || c.Depth.Cfg != 0 || c.Today.Cfg != 0) {
		return "C16/config-file-not-loaded"
	}
	if c.Channel == "flag" || c.Channel == "env" {
		return "C16/existing-explicit-config-rejected"
	}
	return ""
}

func genC16Src(t *rapid.T, label string, hasEnv bool) c16Src {
	var s c16Src
	top := 5 // 5 = the default value given explicitly
	if !hasEnv {
		top = 4 // the current date has no literal default
	}
	if rapid.Bool().Draw(t, label+".flag") {
		s.Flag = rapid.IntRange(1, top).Draw(t, label+".flagv")
	}
	if hasEnv && rapid.Bool().Draw(t, label+".env") {
		s.Env = rapid.IntRange(1, top).Draw(t, label+".envv")
	}
	if rapid.Bool().Draw(t, label+".cfg") {
		s.Cfg = rapid.IntRange(1, 4).Draw(t, label+".cfgv")
	}
	return s
}

func genC16(t *rapid.T) c16Case {
	c := c16Case{
		Book: genC16Src(t, "book", true), Log: genC16Src(t, "log", true), Fmt: genC16Src(t, "fmt", true),
		Depth: genC16Src(t, "depth", true), Today: genC16Src(t, "today", false),
		Channel:    []string{"none", "flag", "flag", "env", "env", "default"}[rapid.IntRange(0, 5).Draw(t, "channel")],
		NoDatabase: rapid.IntRange(0, 5).Draw(t, "nodb") == 0,
		DecoyFood:  rapid.Bool().Draw(t, "decoy"),
		EqualsForm: rapid.Bool().Draw(t, "equals"),
		CfgSymlink: rapid.IntRange(0, 3).Draw(t, "symlink") == 0,
		CfgFifo:    rapid.IntRange(0, 7).Draw(t, "cfgfifo") == 0,
		NoDBFalse:  rapid.IntRange(0, 5).Draw(t, "nodbfalse") == 0,
		Dollar:     rapid.IntRange(0, 3).Draw(t, "dollar") == 0,
		OddNames:   []int{0, 0, 0, 0, 1, 2, 3}[rapid.IntRange(0, 6).Draw(t, "oddnames")],
		CfgRel:     rapid.IntRange(0, 5).Draw(t, "cfgrel") == 0,
		HomeBin:    rapid.IntRange(0, 2).Draw(t, "homebin") == 0,
	}
	if rapid.IntRange(0, 3).Draw(t, "pad") == 0 {
		c.CfgPad = []int{3000, 4090, 5000, 20000}[rapid.IntRange(0, 3).Draw(t, "padn")]
	}
	if c.Channel != "none" && c.Channel != "default" {
		c.CfgMissing = rapid.IntRange(0, 9).Draw(t, "missing") == 0
	}
	c.NowStyle = rapid.IntRange(0, 3).Draw(t, "nowstyle")
	if rapid.Bool().Draw(t, "cfgstyled") {
		c.CfgStyle = rapid.IntRange(1, 4).Draw(t, "cfgstyle")
	}
	if rapid.IntRange(0, 2).Draw(t, "depthbig") == 0 {
		c.DepthMul = rapid.IntRange(2, 130).Draw(t, "depthmul")
	}
	if c.Depth.Flag != 0 && rapid.IntRange(0, 5).Draw(t, "depthzero") == 0 {
		c.Depth.Flag = 6
	} else if c.Depth.Env != 0 && rapid.IntRange(0, 5).Draw(t, "depthzeroenv") == 0 {
		c.Depth.Env = 6
	}
	return c
}

// exhaustive: for each setting, every combination of {flag} x {env} x {config
// entry set / config file without the entry / no config file}, the other
// settings left at neutral values, for each configuration channel.
func c16EnumSpace() []c16Case {
	var out []c16Case
	channels := []string{"flag", "env", "default"}
	for si := 0; si < 5; si++ {
		for _, fl := range []int{0, 1} {
			for _, en := range []int{0, 2} {
				if si == 4 && en != 0 {
					continue
				}
				for cfgMode := 0; cfgMode < 3; cfgMode++ { // 0 entry set, 1 file without entry, 2 no file
					for _, ch := range channels {
						if cfgMode == 2 && ch != "flag" {
							continue
						}
						src := c16Src{Flag: fl, Env: en}
						c := c16Case{Channel: ch, DecoyFood: true}
						if cfgMode == 0 {
							src.Cfg = 3
						}
						if cfgMode == 2 {
							c.Channel = "none"
						}
						switch si {
						case 0:
							c.Book = src
						case 1:
							c.Log = src
						case 2:
							c.Fmt = src
						case 3:
							c.Depth = src
						case 4:
							c.Today = src
						}
						out = append(out, c)
					}
				}
			}
		}
	}
	// the default value given explicitly by flag or env against a configuration entry; symlinked configuration file
	for si := 0; si < 4; si++ {
		for _, src := range []c16Src{{Flag: 5, Cfg: 3}, {Env: 5, Cfg: 3}, {Flag: 5, Env: 2, Cfg: 3}} {
			for _, ch := range channels {
				c := c16Case{Channel: ch, DecoyFood: true}
				switch si {
				case 0:
					c.Book = src
				case 1:
					c.Log = src
				case 2:
					c.Fmt = src
				case 3:
					c.Depth = src
				}
				out = append(out, c)
			}
		}
	}
	for _, ch := range channels {
		out = append(out, c16Case{Channel: ch, DecoyFood: true, CfgSymlink: true, Book: c16Src{Cfg: 3}, Fmt: c16Src{Cfg: 2}})
		out = append(out, c16Case{Channel: ch, DecoyFood: true, CfgFifo: true, Book: c16Src{Cfg: 3}, Log: c16Src{Cfg: 2}, Fmt: c16Src{Cfg: 2}, Depth: c16Src{Cfg: 2}, Today: c16Src{Cfg: 1}})
		for _, pad := range []int{4000, 4200, 9000, 70000} {
			out = append(out, c16Case{Channel: ch, DecoyFood: true, CfgPad: pad, Book: c16Src{Cfg: 3}, Log: c16Src{Cfg: 2}, Fmt: c16Src{Cfg: 2}, Depth: c16Src{Cfg: 2}, Today: c16Src{Cfg: 1}})
		}
	}
	for _, src := range []c16Src{{}, {Flag: 1}, {Env: 2}, {Cfg: 3}} {
		ch := "none"
		if src.Cfg != 0 {
			ch = "flag"
		}
		out = append(out, c16Case{Book: src, Channel: ch, NoDBFalse: true, DecoyFood: true})
	}
	for _, ch := range channels {
		out = append(out, c16Case{Channel: ch, DecoyFood: true, Dollar: true, Book: c16Src{Cfg: 3}, Log: c16Src{Cfg: 2}})
		out = append(out, c16Case{Channel: ch, DecoyFood: true, Dollar: true, Book: c16Src{Flag: 1, Cfg: 3}, Log: c16Src{Env: 4, Cfg: 2}})
		out = append(out, c16Case{Channel: ch, DecoyFood: true, Depth: c16Src{Flag: 6, Cfg: 3}})
		out = append(out, c16Case{Channel: ch, DecoyFood: true, Depth: c16Src{Env: 6, Cfg: 3}})
	}
	// every layout of the configuration file, all five settings from the file
	for _, ch := range channels {
		for style := 1; style <= 4; style++ {
			out = append(out, c16Case{Channel: ch, DecoyFood: true, CfgStyle: style, Book: c16Src{Cfg: 3}, Log: c16Src{Cfg: 2}, Fmt: c16Src{Cfg: 2}, Depth: c16Src{Cfg: 2}, Today: c16Src{Cfg: 1}})
			out = append(out, c16Case{Channel: ch, DecoyFood: true, CfgStyle: style, Dollar: true, Book: c16Src{Cfg: 1, Env: 2}, Log: c16Src{Cfg: 4}, Fmt: c16Src{Cfg: 4, Flag: 1}, Depth: c16Src{Cfg: 4}})
		}
	}
	// the current date: the first day of the calendar from flag and from the file; file entries written with a zone offset
	for _, ch := range channels {
		out = append(out, c16Case{Channel: ch, DecoyFood: true, Today: c16Src{Flag: 4}})
		out = append(out, c16Case{Channel: ch, DecoyFood: true, Today: c16Src{Cfg: 4}})
		out = append(out, c16Case{Channel: ch, DecoyFood: true, Today: c16Src{Flag: 4, Cfg: 2}})
		for ns := 1; ns <= 3; ns++ {
			out = append(out, c16Case{Channel: ch, DecoyFood: true, Today: c16Src{Cfg: 1}, NowStyle: ns})
			out = append(out, c16Case{Channel: ch, DecoyFood: true, Today: c16Src{Cfg: 3}, NowStyle: ns, Fmt: c16Src{Cfg: 2}})
		}
	}
	// depths far above the default, from every source
	for _, mul := range []int{13, 40, 101, 150, 300} {
		for _, src := range []c16Src{{Flag: 1}, {Env: 1}, {Cfg: 1}, {Flag: 2, Env: 1, Cfg: 3}, {Env: 2, Cfg: 1}} {
			ch := "none"
			if src.Cfg != 0 {
				ch = "flag"
			}
			out = append(out, c16Case{Channel: ch, DecoyFood: true, Depth: src, DepthMul: mul})
		}
	}
	// explicit config: existing vs missing, --no-database in every environment
	for _, ch := range []string{"flag", "env"} {
		out = append(out, c16Case{Channel: ch, CfgMissing: true, DecoyFood: true})
		out = append(out, c16Case{Channel: ch, DecoyFood: true})
	}
	for _, decoy := range []bool{false, true} {
		for _, src := range []c16Src{{}, {Flag: 1}, {Env: 2}, {Cfg: 3}, {Flag: 1, Env: 2, Cfg: 3}} {
			ch := "none"
			if src.Cfg != 0 {
				ch = "flag"
			}
			out = append(out, c16Case{Book: src, Channel: ch, NoDatabase: true, DecoyFood: decoy})
		}
	}
	return out
}

// ---------------------------------------------------------------------------
// the recipe-book path and the log path may name the same file (each from any source): every command must read that
// file once per role, i.e. report what it reports for two separate copies of the file

type c16SameCase struct {
	BookVia string `json:"bookvia"` // "flag" | "env" | "config"
	LogVia  string `json:"logvia"`
	Cmd     int    `json:"cmd"`
}

var c16SameCmds = [][]string{{"reg", "--no-color"}, {"bal"}, {"summary", "2021/01/01"}, {"report", "totals"}, {"report", "unresolved"}, {"report", "quantity"}, {"print"}, {"csv", "log"}, {"csv", "database-resolved"}, {"bal", "-s", "x"}, {"reg", "-s", "x"}}

func checkC16Same(c c16SameCase, ctx *vCtx) *vFailure {
	// a file that is a valid recipe book (recipes named like dates) and a valid log at once
	text := "2021/01/01:\n  x: 5\n  2021/01/02: 2\n2021/01/02:\n  y: 3\n  x: 1\n"
	both := vWriteFile("c16-both.yaml", text)
	cp1, cp2 := vWriteFile("c16-copy1.yaml", text), vWriteFile("c16-copy2.yaml", text)
	mk := func(book, log string) vInvocation {
		var cfg strings.Builder
		cfg.WriteString("[Global]\n")
		args := []string{"--today", vToday}
		env := map[string]string{}
		switch c.BookVia {
		case "flag":
			args = append(args, "-d", book)
		case "env":
			env["HR_DATABASE"] = book
		default:
			fmt.Fprintf(&cfg, "DbFileName=%s\n", book)
		}
		switch c.LogVia {
		case "flag":
			args = append(args, "-l", log)
		case "env":
			env["HR_LOGFILE"] = log
		default:
			fmt.Fprintf(&cfg, "LogFileName=%s\n", log)
		}
		if c.BookVia == "config" || c.LogVia == "config" {
			args = append([]string{"--config", vWriteFile("c16-same.conf", cfg.String())}, args...)
		}
		return vInvocation{Args: append(args, c16SameCmds[c.Cmd]...), Env: env}
	}
	ref := vRunApp(mk(cp1, cp2))
	got := vRunApp(mk(both, both))
	ctx.Run(2)
	ctx.NonTrivial(true)
	ctx.Label("book-via:" + c.BookVia)
	ctx.Label("log-via:" + c.LogVia)
	if ref.Failed {
		vViolate("C16: %v fails on valid files: %s", c16SameCmds[c.Cmd], ref)
	}
	if got.Failed != ref.Failed || got.Stdout != ref.Stdout {
		return vFailSig("C16/same-file", "%v with the recipe-book path (from %s) and the log path (from %s) naming the same file: failed=%v\n%s\nbut with two copies of that file: failed=%v\n%s", c16SameCmds[c.Cmd], c.BookVia, c.LogVia, got.Failed, vTrunc(got.Stdout, 600), ref.Failed, vTrunc(ref.Stdout, 600))
	}
	return nil
}

func TestVerifC16Same(t *testing.T) {
	var space []c16SameCase
	for _, b := range []string{"flag", "env", "config"} {
		for _, l := range []string{"flag", "env", "config"} {
			for ci := range c16SameCmds {
				space = append(space, c16SameCase{BookVia: b, LogVia: l, Cmd: ci})
			}
		}
	}
	vEnum(t, "C16", "c16.same",
		"recipe-book path and log path naming one and the same file, each given by flag, environment variable or configuration entry (9 combinations) x 11 commands; oracle: the report for two separate copies of that file",
		fmt.Sprintf("%d combinations", len(space)), len(space), func(i int) c16SameCase { return space[i] }, checkC16Same)
}

func init() {
	vRegister("C16", "c16.same", checkC16Same)
	vRegister("C16", "c16.wallclock", checkC16Wall)
	vRegister("C16", "c16.random", checkC16)
	vRegister("C16", "c16.enum", checkC16)
}

func TestVerifC16Enum(t *testing.T) {
	space := c16EnumSpace()
	vEnum(t, "C16", "c16.enum",
		"for each of the five settings (recipe-book path, log path, date format, resolve depth, current date) the full product {flag set/unset} x {env set/unset} x {config entry set / config file without the entry / no config file} x configuration channel {--config, HR_CONFIG, default location $HOME/.hranoprovod/config through the real binary under an unused uid}, with distinguishable values at every level; plus the documented default value given explicitly by flag/env against a configuration entry, a symlinked configuration file, configuration files padded with comments beyond 4 KiB and 64 KiB, --no-database=false, explicit config existing/missing and --no-database with every other source of the book path, with and without a food.yaml in the working directory",
		fmt.Sprintf("%d combinations", len(space)), len(space), func(i int) c16Case { return space[i] }, checkC16)
}

func TestVerifC16Random(t *testing.T) {
	vRapid(t, "C16", "c16.random",
		"random draws from the full product of sources for all five settings at once (each source absent, one of four distinguishable values, or for flag/env the documented default given literally), configuration channel none/--config/HR_CONFIG/default location, explicit config missing, --no-database, --flag value and --flag=value forms; oracle: effective value = flag, else env, else config entry, else default, observed through csv database (which book), report quantity (which log, parses in which format), print (date format), csv database-resolved (depth error iff N <= 2), stats and -b today (current date); non-trivial = some setting has >=2 sources with different values, or a missing explicit config, or --no-database",
		vBudget(1600, 32000), genC16, checkC16)
}

// the documented default of the current date is the wall clock of the process: its calendar day in the zone of the process

type c16WallCase struct {
	Zone string `json:"zone"`
	Via  int    `json:"via"` // 0 stats, 1 summary today on a log that holds the local day and its neighbours
}

func checkC16Wall(c c16WallCase, ctx *vCtx) *vFailure {
	loc := vZone(c.Zone)
	ctx.Label("zone:" + c.Zone)
	ctx.NonTrivial(true)
	before := time.Now().In(loc)
	var lb strings.Builder
	for d := -2; d <= 2; d++ {
		fmt.Fprintf(&lb, "%s:\n  food of offset %d: 1\n", before.AddDate(0, 0, d).Format("2006/01/02"), d)
	}
	lp := vWriteFile("c16-wall-log.yaml", lb.String())
	bp := vWriteFile("c16-wall-book.yaml", "unused:\n  x: 1\n")
	args := []string{"-d", bp, "-l", lp, "--no-color", "stats"}
	if c.Via == 1 {
		args = []string{"-d", bp, "-l", lp, "--no-color", "summary", "today"}
	}
	r := vRunApp(vInvocation{Args: args, TZ: c.Zone})
	ctx.Run(1)
	after := time.Now().In(loc)
	if before.Format("2006/01/02") != after.Format("2006/01/02") {
		ctx.Excluded("the local day changed while the program ran")
		return nil
	}
	if r.Failed {
		return vFailf("%v under TZ=%s fails: %s", args, c.Zone, r.Err)
	}
	today := before.Format("2006/01/02")
	if c.Via == 0 {
		if so := vReadStats(r.Stdout); so.Today != today {
			return vFailf("stats under TZ=%s without --today and without a Now entry shows today = %q; the wall clock of the process says %s (UTC: %s)", c.Zone, so.Today, today, before.UTC().Format("2006/01/02"))
		}
		return nil
	}
	if !strings.Contains(r.Stdout, "food of offset 0") || strings.Contains(r.Stdout, "food of offset 1") || strings.Contains(r.Stdout, "food of offset -1") {
		return vFailf("summary today under TZ=%s without --today and without a Now entry does not show the record of %s (the day of the process's wall clock; UTC: %s):\n%s", c.Zone, today, before.UTC().Format("2006/01/02"), vTrunc(r.Stdout, 600))
	}
	return nil
}

func TestVerifC16Wall(t *testing.T) {
	var space []c16WallCase
	// at every moment the local day of at least one of the first two zones differs from the UTC day
	for _, z := range []string{"Pacific/Kiritimati", "Pacific/Pago_Pago", "UTC", "Asia/Kolkata", "America/New_York"} {
		for via := 0; via < 2; via++ {
			space = append(space, c16WallCase{Zone: z, Via: via})
		}
	}
	vEnum(t, "C16", "c16.wallclock",
		"no --today and no Now entry: stats and `summary today` under the process zones Pacific/Kiritimati (+14), Pacific/Pago_Pago (-11), UTC, Asia/Kolkata, America/New_York must use the calendar day of the process's wall clock (read before and after the run; a run across local midnight is discarded)",
		fmt.Sprintf("%d cases", len(space)), len(space), func(i int) c16WallCase { return space[i] }, checkC16Wall)
}
