//go:build go1.21

package main

// C13 — CSV exports are lossless and machine-readable.
// C14 — print emits a normal form that reads back to the same log.

import (
	"fmt"
	"math/big"
	"regexp"
	"strings"
	"testing"

	"pgregory.net/rapid"
)

type c13Case struct {
	Book   vDoc   `json:"book"`
	Log    vDoc   `json:"log"`
	Days   []int  `json:"days"`
	Layout string `json:"layout"`
	TZ     string `json:"tz,omitempty"`
	// Depth > 0: the resolve depth is set (the book then holds a chain nested more deeply than the default limit allows)
	Depth    int    `json:"depth,omitempty"`
	DepthVia string `json:"depthvia,omitempty"` // "flag" | "env" | "config"
	// RawAgain: records of the book that are declared once more further down, with their lines in reverse order and one
	// more entry. Which declaration a recipe resolves to is not defined, so only the raw export reads this book: it
	// is defined per entry, in file order.
	RawAgain []int `json:"rawagain,omitempty"`
}

var (
	c13Re3 = regexp.MustCompile(`^-?\d+\.\d{3}$`)
	c13Re2 = regexp.MustCompile(`^-?\d+\.\d{2}$`)
)

func c13NeedsCare(name string) bool {
	if strings.ContainsAny(name, ",\"") {
		return true
	}
	for _, r := range name {
		if r > 127 {
			return true
		}
	}
	return false
}

func checkC13(c c13Case, ctx *vCtx) *vFailure {
	bp := vWriteFile("c13-book.yaml", c.Book.Render())
	lp := vWriteFile("c13-log.yaml", c.Log.Render())
	base := []string{"--today", vFmtDay(9, c.Layout), "-d", bp, "-l", lp}
	if c.Layout != "" {
		base = append(base, "--date-format", c.Layout)
	}
	env := map[string]string{}
	if c.Depth > 0 {
		switch c.DepthVia {
		case "env":
			env["HR_MAXDEPTH"] = fmt.Sprint(c.Depth)
		case "config":
			base = append([]string{"--config", vWriteFile("c13.conf", fmt.Sprintf("[Resolver]\nMaxDepth=%d\n", c.Depth))}, base...)
		default:
			base = append(base, "--maxdepth", fmt.Sprint(c.Depth))
		}
		ctx.Label("depth-above-default-via-" + c.DepthVia)
	}
	run := func(args ...string) string {
		r := vRunApp(vInvocation{Args: append(append([]string{}, base...), args...), TZ: c.TZ, Env: env})
		ctx.Run(1)
		if r.Failed {
			vViolate("C13: %v failed on valid input: %s", args, r)
		}
		return r.Stdout
	}
	care, merged, rounding := false, false, false

	// csv log
	out := run("csv", "log")
	rows, err := vReadCSV(out)
	if err != nil {
		return vFailf("csv log is not valid RFC 4180: %v\n%s", err, vTrunc(out, 1500))
	}
	i := 0
	for di, rec := range c.Log.Parsed() {
		ms := vMergeEntries(rec.Entries)
		if len(ms) != len(rec.Entries) {
			merged = true
		}
		for _, m := range ms {
			if i >= len(rows) {
				return vFailf("csv log has %d rows, more are expected (one per day and distinct food)", len(rows))
			}
			r := rows[i]
			i++
			if len(r) != 3 {
				return vFailf("csv log row %d has %d fields: %q", i, len(r), r)
			}
			if r[0] != vFmtDay(c.Days[di], "2006-01-02") {
				return vFailf("csv log row %d: date %q, expected ISO %s", i, r[0], vFmtDay(c.Days[di], "2006-01-02"))
			}
			if r[1] != m.Name {
				return vFailf("csv log row %d: name %q, expected %q byte for byte", i, r[1], m.Name)
			}
			if !c13Re3.MatchString(r[2]) || !vValClose(r[2], m.Q, 3) {
				return vFailf("csv log row %d (%q): amount %q is not within half a unit of the third decimal of %s", i, m.Name, r[2], m.Q.V.FloatString(6))
			}
			if c13NeedsCare(m.Name) {
				care = true
			}
			if !vRatMul(m.Q.V, big.NewRat(1000, 1)).IsInt() {
				rounding = true
			}
		}
	}
	if i != len(rows) {
		return vFailf("csv log has %d rows, %d expected", len(rows), i)
	}

	// csv log with an end bound: the rows of the records up to that day, wherever they stand in the file
	if c.Layout != "2006-01-02 15:04 -0700" && len(c.Days) >= 2 {
		bound := c.Days[len(c.Days)/2]
		out := run("csv", "log", "-e", vFmtDay(bound, c.Layout))
		got, err := vReadCSV(out)
		if err != nil {
			return vFailf("csv log -e is not valid RFC 4180: %v", err)
		}
		var want [][2]string
		for di, rec := range c.Log.Parsed() {
			if c.Days[di] > bound {
				continue
			}
			for _, m := range vMergeEntries(rec.Entries) {
				want = append(want, [2]string{vFmtDay(c.Days[di], "2006-01-02"), m.Name})
			}
		}
		if len(got) != len(want) {
			return vFailf("csv log -e %s has %d rows, %d expected (every record dated up to the bound, in file order; days of the log: %v)", vFmtDay(bound, c.Layout), len(got), len(want), c.Days)
		}
		for i, w := range want {
			if len(got[i]) != 3 || got[i][0] != w[0] || got[i][1] != w[1] {
				return vFailf("csv log -e %s row %d = %q, expected (%s, %q, ...)", vFmtDay(bound, c.Layout), i+1, got[i], w[0], w[1])
			}
		}
		ctx.Label("csv-log-with-end-bound")
	}
	// csv database (raw)
	rawBook := c.Book
	if len(c.RawAgain) > 0 {
		rawBook.Recs = append([]vRec{}, c.Book.Recs...)
		rawBook.NoFinalNL = false
		for _, k := range c.RawAgain {
			if k >= len(c.Book.Recs) {
				continue
			}
			again := vRec{Head: c.Book.Recs[k].Head, HL: vLayout{EOL: "\n"}}
			for j := len(c.Book.Recs[k].Lines) - 1; j >= 0; j-- {
				if ln := c.Book.Recs[k].Lines[j]; ln.Kind == vkEntry {
					again.Lines = append(again.Lines, ln)
				}
			}
			again.Lines = append(again.Lines, vLine{Kind: vkEntry, Name: "again~", Num: "1.5", L: vLayout{Indent: "  ", Sep: ": ", EOL: "\n"}})
			at := len(rawBook.Recs) - (k % 2) // at the end, or in front of the last record
			if at < 0 {
				at = 0
			}
			rawBook.Recs = append(rawBook.Recs[:at], append([]vRec{again}, rawBook.Recs[at:]...)...)
		}
		ctx.Label("raw-book-with-repeated-headings")
		out = run("-d", vWriteFile("c13-rawbook.yaml", rawBook.Render()), "csv", "database")
	} else {
		out = run("csv", "database")
	}
	rows, err = vReadCSV(out)
	if err != nil {
		return vFailf("csv database is not valid RFC 4180: %v\n%s", err, vTrunc(out, 1500))
	}
	i = 0
	for _, rec := range rawBook.Parsed() {
		for _, e := range rec.Entries {
			if i >= len(rows) {
				return vFailf("csv database has %d rows, more are expected (one per entry)", len(rows))
			}
			r := rows[i]
			i++
			if len(r) != 3 || r[0] != rec.Head || r[1] != e.Name {
				return vFailf("csv database row %d = %q, expected (%q, %q, …)", i, r, rec.Head, e.Name)
			}
			if !c13Re2.MatchString(r[2]) || !vNumClose(r[2], vRat(e.Num), 2, nil) {
				return vFailf("csv database row %d (%q/%q): amount %q is not within half a unit of the second decimal of %s", i, rec.Head, e.Name, r[2], e.Num)
			}
			if c13NeedsCare(rec.Head) || c13NeedsCare(e.Name) {
				care = true
			}
		}
	}
	if i != len(rows) {
		return vFailf("csv database has %d rows, %d expected", len(rows), i)
	}

	// csv database-resolved
	out = run("csv", "database-resolved")
	rows, err = vReadCSV(out)
	if err != nil {
		return vFailf("csv database-resolved is not valid RFC 4180: %v\n%s", err, vTrunc(out, 1500))
	}
	m := vModelResolve(c.Book.Parsed())
	i = 0
	for _, rec := range vSortedKeys(m.Elems) {
		for _, el := range vSortedKeys(m.Elems[rec]) {
			if i >= len(rows) {
				return vFailf("csv database-resolved has %d rows, more are expected", len(rows))
			}
			r := rows[i]
			i++
			w := m.Elems[rec][el]
			if len(r) != 3 || r[0] != rec || r[1] != el || !c13Re2.MatchString(r[2]) || !vValClose(r[2], w, 2) {
				return vFailf("csv database-resolved row %d = %q, expected (%q, %q, %s) (sorted by recipe then element)", i, r, rec, el, w.V.FloatString(4))
			}
		}
	}
	if i != len(rows) {
		return vFailf("csv database-resolved has %d rows, %d expected", len(rows), i)
	}
	ctx.NonTrivial(care && (merged || rounding))
	if care {
		ctx.Label("name-needs-quoting-or-non-ascii")
	}
	if merged {
		ctx.Label("merged-duplicate")
	}
	if rounding {
		ctx.Label("rounding-visible")
	}
	if c.Layout != "" {
		ctx.Label("date-format:" + c.Layout)
	}
	return nil
}

// vGenWildBookLog: wild names, every number shape.
func vGenWildBookLog(t *rapid.T, layout string, notes bool) (vDoc, vDoc, []int) {
	lo := vLayoutOpts{EOL: []string{"", "", "\r\n", "mixed"}[rapid.IntRange(0, 3).Draw(t, "eol")]}
	if rapid.Bool().Draw(t, "plain") {
		lo = vLayoutOpts{Plain: true}
	}
	book, info := vGenBook(t, vBookOpts{MaxRecipes: 6, MaxDepth: 3, Wild: true, Exact: false, Layout: lo, Notes: notes}, "book")
	// replace the book's numbers by numbers of any shape
	for ri := range book.Recs {
		for li := range book.Recs[ri].Lines {
			if book.Recs[ri].Lines[li].Kind == vkEntry && rapid.Bool().Draw(t, "anynum") {
				book.Recs[ri].Lines[li].Num = vGenNumAny(t, "bnum")
			}
		}
	}
	foods := append(append([]string{}, info.Recipes...), info.Basics...)
	foods = append(foods, vGenNamePool(t, true, rapid.IntRange(1, 4).Draw(t, "nunk"), "unk")...)
	log, days := vGenLog(t, vLogOpts{MinDays: 1, MaxDays: 5, MaxEntries: 6, Foods: foods, AnyNum: true, DateLayout: layout, Layout: lo, Notes: notes, Window: 8}, "log")
	return book, log, days
}

func genC13(t *rapid.T) c13Case {
	layout := []string{"", "", "2006-01-02", "2006-01-02 15:04 -0700"}[rapid.IntRange(0, 3).Draw(t, "layout")]
	book, log, days := vGenWildBookLog(t, layout, true)
	// days around month/year boundaries and daylight-saving changes, under any process time zone
	shift := []int{0, 0, 56, 362, 68, 82, 243, 306, -5, 1456}[rapid.IntRange(0, 9).Draw(t, "shift")]
	for i := range days {
		days[i] += shift
		// the same day of the year in another year, next to its neighbour
		if i > 0 && rapid.IntRange(0, 9).Draw(t, "yearjump") == 0 {
			days[i] = days[i-1] + []int{365, 730, -365, 366, 1461}[rapid.IntRange(0, 4).Draw(t, "yearjumpn")]
		}
		log.Recs[i].Head = vFmtDay(days[i], layout)
		if layout == "2006-01-02 15:04 -0700" {
			log.Recs[i].Head = vGenZoneHead(t, days[i], "zone")
		}
	}
	if layout != "2006-01-02 15:04 -0700" && len(days) > 0 && rapid.IntRange(0, 11).Draw(t, "zeroday") == 0 {
		// a record dated 0001/01/01: the first day of the calendar, a day like any other
		i := rapid.IntRange(0, len(days)-1).Draw(t, "zerodayat")
		days[i] = vZeroDay
		log.Recs[i].Head = vFmtDay(vZeroDay, layout)
	}
	c := c13Case{Book: book, Log: log, Days: days, Layout: layout, TZ: c06Zones[rapid.IntRange(0, len(c06Zones)-1).Draw(t, "tz")]}
	if len(book.Recs) > 0 && rapid.IntRange(0, 3).Draw(t, "rawagain") == 0 {
		c.RawAgain = rapid.SliceOfN(rapid.IntRange(0, len(book.Recs)-1), 1, 3).Draw(t, "rawagainat")
	}
	if rapid.IntRange(0, 5).Draw(t, "deep") == 0 {
		// a chain nested more deeply than the default limit allows, and a limit that allows it
		L := rapid.IntRange(10, 16).Draw(t, "deeplen")
		chain := c11Chain("deep~", L)
		chain[L-1].Lines[0].Name = "leaf~x"
		c.Book.Recs = append(c.Book.Recs, chain...)
		c.Book.NoFinalNL = false
		c.Depth = L + rapid.IntRange(1, 4).Draw(t, "deepslack")
		c.DepthVia = []string{"flag", "env", "config"}[rapid.IntRange(0, 2).Draw(t, "deepvia")]
	}
	return c
}

// ---------------------------------------------------------------------------
// C14

type c14Case struct {
	Log    vDoc   `json:"log"`
	Days   []int  `json:"days"`
	Layout string `json:"layout"` // "" = default
	ViaEnv bool   `json:"viaenv"`
	ViaCfg bool   `json:"viacfg"` // date format given by the configuration file (--config) instead
	TZ     string `json:"tz,omitempty"`
	Begin  int    `json:"begin"` // c07Absent = none
	End    int    `json:"end"`
	// where each bound is written: false = after the command word, true = among the global options
	GlobalB bool `json:"globalb,omitempty"`
	GlobalE bool `json:"globale,omitempty"`
}

func checkC14(c c14Case, ctx *vCtx) *vFailure {
	lp := vWriteFile("c14-log.yaml", c.Log.Render())
	env := map[string]string{}
	var opts []string
	if c.Layout != "" {
		if c.ViaCfg {
			cp := vWriteFile("c14.conf", "[Global]\nDateFormat="+c.Layout+"\n")
			opts = append(opts, "--config", cp)
		} else if c.ViaEnv {
			env["HR_DATE_FORMAT"] = c.Layout
		} else {
			opts = append(opts, "--date-format", c.Layout)
		}
	}
	opts = append(opts, "--today", vFmtDay(9, c.Layout))
	var period, gperiod []string
	if c.Begin != c07Absent {
		if c.GlobalB {
			gperiod = append(gperiod, "-b", vFmtDay(c.Begin, c.Layout))
		} else {
			period = append(period, "-b", vFmtDay(c.Begin, c.Layout))
		}
	}
	if c.End != c07Absent {
		if c.GlobalE {
			gperiod = append(gperiod, "-e", vFmtDay(c.End, c.Layout))
		} else {
			period = append(period, "-e", vFmtDay(c.End, c.Layout))
		}
	}
	if len(gperiod) > 0 && len(period) > 0 {
		ctx.Label("period-on-both-levels")
	}
	run := func(logPath string, withPeriod bool, args ...string) vRun {
		a := append([]string{}, opts...)
		if withPeriod {
			a = append(a, gperiod...)
		}
		a = append(a, "-l", logPath)
		a = append(a, args...)
		if withPeriod {
			a = append(a, period...)
		}
		r := vRunApp(vInvocation{Args: a, Env: env, TZ: c.TZ})
		ctx.Run(1)
		return r
	}
	if c.TZ != "" {
		ctx.Label("tz:" + c.TZ)
	}
	p1 := run(lp, true, "print")
	if p1.Failed {
		return vFailf("print failed on a readable log: %s", p1)
	}
	// expectation from the AST
	type wantDay struct {
		date  string
		notes []vPNote
		foods []vMerged
	}
	var want []wantDay
	hasNotes, hasMerge := false, false
	for i, rec := range c.Log.Parsed() {
		d := c.Days[i]
		if (c.Begin != c07Absent && d < c.Begin) || (c.End != c07Absent && d > c.End) {
			continue
		}
		if c.Layout == "2006-01-02 15:04" && c.End != c07Absent && d == c.End && len(rec.Head) >= 16 && rec.Head[11:16] != "00:00" {
			continue // the bound is an instant (midnight of that day): later records of the day lie after it
		}
		ms := vMergeEntries(rec.Entries)
		if len(ms) != len(rec.Entries) {
			hasMerge = true
		}
		if len(rec.Notes) > 0 {
			hasNotes = true
		}
		want = append(want, wantDay{rec.Head, rec.Notes, ms}) // the heading text as written (in the chosen format)
	}
	feats := c04Features(c.Log)
	ctx.NonTrivial(c.Layout != "" || hasNotes || hasMerge || len(feats) >= 2)
	if c.Layout != "" {
		ctx.Label("date-format:" + c.Layout)
		if c.ViaCfg {
			ctx.Label("via-config-file")
		} else if c.ViaEnv {
			ctx.Label("via-env")
		}
	}
	if hasNotes {
		ctx.Label("notes")
	}
	if hasMerge {
		ctx.Label("merged-duplicate")
	}
	if len(period) > 0 {
		ctx.Label("period")
	}
	sigDate := ""
	if c.Layout != "" {
		sigDate = "C14/date-format-not-applied-to-output"
	}
	// (ii) normal form read back against the AST
	got := vReadPrint(p1.Stdout)
	if len(got) != len(want) {
		return vFailf("print shows %d day blocks, %d expected", len(got), len(want))
	}
	for i, w := range want {
		g := got[i]
		if g.Date != w.date {
			return vFailSig(sigDate, "print writes date %q, expected %q under date format %q", g.Date, w.date, c.Layout)
		}
		if len(g.Notes) != len(w.notes) {
			return vFailf("print day %s: %d notes, expected %d (%q vs %q)", w.date, len(g.Notes), len(w.notes), g.Notes, w.notes)
		}
		for k := range w.notes {
			if g.Notes[k] != w.notes[k] {
				return vFailf("print day %s note %d: %q, expected %q", w.date, k, g.Notes[k], w.notes[k])
			}
		}
		if len(g.Foods) != len(w.foods) {
			return vFailf("print day %s: %d foods, expected %d (duplicates of a day merged)", w.date, len(g.Foods), len(w.foods))
		}
		for k, wf := range w.foods {
			if g.Foods[k].Name != wf.Name || !vValClose(g.Foods[k].Val, wf.Q, 2) {
				return vFailf("print day %s food %d: (%q, %s), expected (%q, %s rounded to two decimals)", w.date, k, g.Foods[k].Name, g.Foods[k].Val, wf.Name, wf.Q.V.FloatString(5))
			}
		}
	}
	// (i) the tool reads its own output back under the same options
	pp := vWriteFile("c14-printed.yaml", p1.Stdout)
	c1 := run(lp, true, "csv", "log")
	c2 := run(pp, false, "csv", "log")
	if c1.Failed {
		vViolate("C14: csv log failed on the original: %s", c1)
	}
	if c2.Failed {
		return vFailSig(sigDate, "the tool cannot read back what print wrote under the same options (%v %v): %s\nprinted log:\n%s", opts, env, c2.Err, vTrunc(p1.Stdout, 1500))
	}
	r1, e1 := vReadCSV(c1.Stdout)
	r2, e2 := vReadCSV(c2.Stdout)
	if e1 != nil || e2 != nil {
		vViolate("C14: csv log of the log or of the printed log is not readable CSV: %v %v", e1, e2)
	}
	if len(r1) != len(r2) {
		return vFailf("csv log of the printed log has %d rows, the original %d", len(r2), len(r1))
	}
	for i := range r1 {
		// rounding to two decimals (0.005) + the two three-decimal prints (0.001) + float64 resolution at this magnitude
		tol := vRatAdd(big.NewRat(61, 10000), vRatMul(big.NewRat(1, 100000000000000), vRatAbs(vNum(r1[i][2]))))
		if r1[i][0] != r2[i][0] || r1[i][1] != r2[i][1] || vRatAbs(vRatSub(vNum(r1[i][2]), vNum(r2[i][2]))).Cmp(tol) > 0 {
			return vFailf("csv log row %d: original %q, after print %q", i, r1[i], r2[i])
		}
	}
	// (iii) printing the printed log reproduces it byte for byte
	p2 := run(pp, false, "print")
	if p2.Failed {
		return vFailSig(sigDate, "print fails on its own output: %s", p2.Err)
	}
	if p2.Stdout != p1.Stdout {
		return vFailf("print is not idempotent.\n--- first:\n%s\n--- second:\n%s", vTrunc(p1.Stdout, 1500), vTrunc(p2.Stdout, 1500))
	}
	return nil
}

var c14Layouts = []string{"", "", "2006-01-02", "02.01.2006", "02/01/2006", "2 Jan 2006", "20060102", "2006-01-02 15:04", "2006-01-02 15:04 -0700", "2006/1/2", "January 2, 2006", "Mon 2 Jan 2006", "2006-01", "Jan 2006", "2006", "2006-01-02T15:04", "2006-01-02T15:04:05Z07:00", "Jan 2 2006 3:04PM"}

func c14Partial(layout string) bool {
	return layout == "2006-01" || layout == "Jan 2006" || layout == "2006"
}

func genC14(t *rapid.T) c14Case {
	layout := c14Layouts[rapid.IntRange(0, len(c14Layouts)-1).Draw(t, "layout")]
	_, log, days := vGenWildBookLog(t, layout, true)
	// place the days around a month/year boundary or a daylight-saving change
	shift := []int{0, 0, 56, 362, 68, 82, 243, 306}[rapid.IntRange(0, 7).Draw(t, "shift")]
	for i := range days {
		days[i] += shift
		log.Recs[i].Head = vFmtDay(days[i], layout)
	}
	if layout == "2006-01-02 15:04" {
		// a format with a time of day: several records of one day at different times, next to each other
		for i := range days {
			if i > 0 && rapid.Bool().Draw(t, "sameday") {
				days[i] = days[i-1]
			}
			mins := rapid.IntRange(0, 1439).Draw(t, "minutes")
			log.Recs[i].Head = fmt.Sprintf("%s %02d:%02d", vFmtDay(days[i], "2006-01-02"), mins/60, mins%60)
		}
	}
	if layout == "2006-01-02 15:04 -0700" {
		// a format with a numeric UTC offset: the day of a record is the one written, whatever UTC or the process zone say
		for i := range days {
			if i > 0 && rapid.Bool().Draw(t, "sameday") {
				days[i] = days[i-1]
			}
			log.Recs[i].Head = vGenZoneHead(t, days[i], "zone")
		}
	}
	// quantities with halves at the third decimal
	for ri := range log.Recs {
		for li := range log.Recs[ri].Lines {
			if log.Recs[ri].Lines[li].Kind == vkEntry && rapid.IntRange(0, 5).Draw(t, "half") == 0 {
				log.Recs[ri].Lines[li].Num = fmt.Sprintf("%d.%d5", rapid.IntRange(0, 20).Draw(t, "hi"), rapid.IntRange(0, 99).Draw(t, "hf"))
			}
		}
	}
	if !strings.HasPrefix(layout, "2006-01-02 15:04") && layout != "2 Jan 2006" && layout != "Mon 2 Jan 2006" && !c14Partial(layout) && len(days) > 0 && rapid.IntRange(0, 11).Draw(t, "zeroday") == 0 {
		i := rapid.IntRange(0, len(days)-1).Draw(t, "zerodayat")
		days[i] = vZeroDay
		log.Recs[i].Head = vFmtDay(vZeroDay, layout)
	}
	c := c14Case{Log: log, Days: days, Layout: layout, ViaEnv: rapid.Bool().Draw(t, "viaenv"), ViaCfg: rapid.IntRange(0, 2).Draw(t, "viacfg") == 0, Begin: c07Absent, End: c07Absent}
	c.TZ = c06Zones[rapid.IntRange(0, len(c06Zones)-1).Draw(t, "tz")]
	if layout != "2006-01-02 15:04 -0700" && !c14Partial(layout) && rapid.IntRange(0, 3).Draw(t, "period") == 0 {
		c.Begin = shift + rapid.IntRange(0, 7).Draw(t, "b")
		if rapid.Bool().Draw(t, "hase") {
			c.End = shift + rapid.IntRange(0, 7).Draw(t, "e")
		}
		c.GlobalB, c.GlobalE = rapid.Bool().Draw(t, "globalb"), rapid.Bool().Draw(t, "globale")
		if layout != "2 Jan 2006" && layout != "Mon 2 Jan 2006" && rapid.IntRange(0, 7).Draw(t, "zerobound") == 0 {
			// a bound on the first day of the calendar
			if rapid.Bool().Draw(t, "zeroboundend") {
				c.End = vZeroDay
			} else {
				c.Begin = vZeroDay
			}
		}
	}
	return c
}

func init() {
	vRegister("C13", "c13.altcomment", checkC13Alt)
	vRegister("C13", "c13.random", checkC13)
	vRegister("C14", "c14.random", checkC14)
}

// another comment character (configuration file, [ParserConfig] CommentChar=59): '#' is then an ordinary character,
// names that begin with it are names, ';' begins comments and notes

type c13AltCase struct {
	Cmd int `json:"cmd"`
}

func checkC13Alt(c c13AltCase, ctx *vCtx) *vFailure {
	cfg := vWriteFile("c13-alt.conf", "[ParserConfig]\nCommentChar=59\n")
	bp := vWriteFile("c13-alt-book.yaml", "; a comment under the other character\n#1 special:\n  #salt: 2\n  x: 1\n; another comment\nplain:\n  #1 special: 3\n  ; a note\n  y: 0.5\n")
	lp := vWriteFile("c13-alt-log.yaml", "2021/01/01:\n  #1 special: 2\n  ; weight: 81\n  plain: 1\n2021/01/02:\n  #salt: 4\n")
	cmd := [][]string{{"csv", "database"}, {"csv", "database-resolved"}, {"csv", "log"}}[c.Cmd%3]
	want := [][][]string{
		{{"#1 special", "#salt", "2.00"}, {"#1 special", "x", "1.00"}, {"plain", "#1 special", "3.00"}, {"plain", "y", "0.50"}},
		{{"#1 special", "#salt", "2.00"}, {"#1 special", "x", "1.00"}, {"plain", "#salt", "6.00"}, {"plain", "x", "3.00"}, {"plain", "y", "0.50"}},
		{{"2021-01-01", "#1 special", "2.000"}, {"2021-01-01", "plain", "1.000"}, {"2021-01-02", "#salt", "4.000"}},
	}[c.Cmd%3]
	r := vRunApp(vInvocation{Args: append([]string{"--config", cfg, "--today", vToday, "-d", bp, "-l", lp}, cmd...)})
	ctx.Run(1)
	ctx.NonTrivial(true)
	if r.Failed {
		return vFailf("%v with ';' as comment character fails: %s", cmd, r.Err)
	}
	rows, err := vReadCSV(r.Stdout)
	if err != nil {
		return vFailf("%v with ';' as comment character: not valid RFC 4180: %v", cmd, err)
	}
	if fmt.Sprintf("%q", rows) != fmt.Sprintf("%q", want) {
		return vFailf("%v with ';' as comment character (names that begin with '#' are names): rows %q, expected %q", cmd, rows, want)
	}
	return nil
}

func TestVerifC13Alt(t *testing.T) {
	vEnum(t, "C13", "c13.altcomment",
		"the three exports under a configuration file that makes ';' the comment character, on a book and a log whose names begin with '#': the rows by construction",
		"3 commands", 3, func(i int) c13AltCase { return c13AltCase{Cmd: i} }, checkC13Alt)
}

func TestVerifC13Random(t *testing.T) {
	vRapid(t, "C13", "c13.random",
		"random books and logs with wild names (commas, double quotes, colons, non-ASCII scripts, inner blanks, names that look like numbers), quantities of every shape (negative, tiny, large, many digits, exponents), repeated foods per day, nesting depth <=3, default and ISO date format, days around month/year ends and daylight-saving changes under 12 process time zones; the three exports are parsed with an own RFC 4180 state machine and compared row by row with the AST / rational resolver; non-trivial = a name needs quoting or is non-ASCII and (a merged duplicate or a value that changes at the printed precision)",
		vBudget(6400, 160000), genC13, checkC13)
}

func TestVerifC14Random(t *testing.T) {
	vRapid(t, "C14", "c14.random",
		"random logs in every layout variant with wild names, notes of both documented forms, duplicates inside a day, quantities with >2 decimals and ties at the third decimal, empty days; date format from {default, 2006-01-02, 02.01.2006, 02/01/2006, '2 Jan 2006', 20060102, '2006-01-02 15:04' with several records per day at different times} given by flag, HR_DATE_FORMAT or the configuration file; optional period; days placed at month/year boundaries and daylight-saving changes under 12 process time zones; oracle: print output read by an own normal-form reader = AST, the tool reads it back (csv log equal up to rounding), print of the printed log is byte-identical; non-trivial = non-default date format or notes or a merged duplicate or >=2 layout features",
		vBudget(4000, 96000), genC14, checkC14)
}
