//go:build go1.21

package main

// C07 — all reports agree on the same quantities (relations R1..R11 between
// outputs of different code paths of the program, no reference model between).

import (
	"fmt"
	"math/big"
	"sort"
	"strings"
	"testing"

	"pgregory.net/rapid"
)

type c07Case struct {
	S      vScenario `json:"s"`
	X      string    `json:"x"`
	Begin  int       `json:"begin"` // -1000 = absent
	End    int       `json:"end"`
	Sorted bool      `json:"sorted"`
	// Clock: the date format has a clock component ("2006/01/02 15:04"); record i is dated day S.Days[i] at minute Mins[i],
	// the period bounds are instants too
	Clock    bool  `json:"clock,omitempty"`
	Mins     []int `json:"mins,omitempty"`
	BeginMin int   `json:"beginmin,omitempty"`
	EndMin   int   `json:"endmin,omitempty"`
	// Split: where the bounds go for the commands that define -b/-e themselves: 0 both global, 1 end after the command,
	// 2 begin after the command, 3 both after the command
	Split int `json:"split,omitempty"`
	// Depth > 0: the book holds a chain nested more deeply than the default limit allows, ending in X, and the limit is
	// raised to Depth on one level (every command must work under the same limit, wherever it was set)
	Depth    int    `json:"depth,omitempty"`
	DepthVia string `json:"depthvia,omitempty"` // "flag" | "env" | "config"
}

const c07ClockLayout = "2006/01/02 15:04"

func c07Instant(day, min int) string {
	return fmt.Sprintf("%s %02d:%02d", vFmtDay(day, ""), min/60, min%60)
}

const c07Absent = -1000

func vNum(s string) *big.Rat {
	r, ok := new(big.Rat).SetString(strings.TrimSpace(s))
	if !ok {
		vFault("not a number: %q", s)
	}
	return r
}

// vSumEq: printed total equals the sum of printed parts, exactly in exact mode,
// within (n+1) half-units of the last printed digit otherwise.
func vSumEq(total *big.Rat, parts []*big.Rat, exact bool, unit *big.Rat) bool {
	return vSumEqMag(total, parts, exact, unit, nil)
}

// vSumEqMag: as vSumEq; behind holds values the compared figures were computed from (a net amount is the difference of a
// positive and a negative side that may be many orders of magnitude larger than it: their size bounds its float error)
func vSumEqMag(total *big.Rat, parts []*big.Rat, exact bool, unit *big.Rat, behind []*big.Rat) bool {
	sum := new(big.Rat)
	mag := new(big.Rat)
	for _, b := range behind {
		mag.Add(mag, vRatAbs(b))
	}
	for _, p := range parts {
		sum.Add(sum, p)
		mag.Add(mag, vRatAbs(p))
	}
	tol := new(big.Rat)
	if !exact {
		tol = vRatMul(big.NewRat(int64(len(parts))+1, 2), unit)
		tol.Add(tol, vRatMul(vRelSlack(2*len(parts)), vRatAdd(big.NewRat(1, 1), mag)))
	}
	return vRatAbs(vRatSub(total, sum)).Cmp(tol) <= 0
}

var vCent = big.NewRat(1, 100)

func isoToSlash(s string) string { return strings.ReplaceAll(s, "-", "/") }

func checkC07(c c07Case, ctx *vCtx) *vFailure {
	if c.Clock {
		if len(c.Mins) != len(c.S.Log.Recs) || len(c.S.Days) != len(c.S.Log.Recs) {
			vFault("C07 clock mode: %d records, %d days, %d minutes", len(c.S.Log.Recs), len(c.S.Days), len(c.Mins))
		}
		recs := append([]vRec{}, c.S.Log.Recs...)
		for i := range recs {
			recs[i].Head = c07Instant(c.S.Days[i], c.Mins[i])
		}
		c.S.Log.Recs = recs
		ctx.Label("clock-format")
	}
	f := c.S.Write("c07")
	exact := c.S.Exact
	var period []string
	if c.Begin != c07Absent {
		if c.Clock {
			period = append(period, "-b", c07Instant(c.Begin, c.BeginMin))
		} else {
			period = append(period, "-b", vFmtDay(c.Begin, ""))
		}
	}
	if c.End != c07Absent {
		if c.Clock {
			period = append(period, "-e", c07Instant(c.End, c.EndMin))
		} else {
			period = append(period, "-e", vFmtDay(c.End, ""))
		}
	}
	fileArgs := func(args ...string) []string {
		if c.Clock {
			return append([]string{"--date-format", c07ClockLayout, "--today", vToday + " 00:00", "-d", f.Book, "-l", f.Log}, args...)
		}
		return f.Args(args...)
	}
	dayOf := func(s string) string { // the calendar date of a printed date
		if c.Clock && len(s) >= 10 {
			return s[:10]
		}
		return s
	}
	run := func(args ...string) vRun {
		glob, own := period, []string(nil)
		// the commands that define -b/-e themselves may get one bound (or both) after the command word: the period is the
		// same one, wherever its two ends are written
		nw := 1
		if len(args) > 1 && args[0] == "csv" {
			nw = 2
		}
		if c.Split > 0 && (args[0] == "reg" || args[0] == "bal" || args[0] == "print" || (args[0] == "csv" && len(args) > 1 && args[1] == "log")) {
			glob = nil
			for i := 0; i+1 < len(period); i += 2 {
				toOwn := c.Split == 3 || (c.Split == 1 && period[i] == "-e") || (c.Split == 2 && period[i] == "-b")
				if toOwn {
					own = append(own, period[i], period[i+1])
				} else {
					glob = append(glob, period[i], period[i+1])
				}
			}
			args = append(append(append([]string{}, args[:nw]...), own...), args[nw:]...)
		}
		all := append(append([]string{"--no-color"}, glob...), fileArgs(args...)...)
		env := map[string]string{}
		if c.Depth > 0 {
			switch c.DepthVia {
			case "env":
				env["HR_MAXDEPTH"] = fmt.Sprint(c.Depth)
			case "config":
				all = append([]string{"--config", vWriteFile("c07.conf", fmt.Sprintf("[Resolver]\nMaxDepth=%d\n", c.Depth))}, all...)
			default:
				all = append([]string{"--maxdepth", fmt.Sprint(c.Depth)}, all...)
			}
		}
		r := vRunApp(vInvocation{Args: all, Env: env})
		ctx.Run(1)
		if r.Failed {
			vViolate("C07: %v failed on valid input: %s", args, r)
		}
		return r
	}
	X := c.X
	regDays := vReadRegister(run("reg").Stdout)
	totals := vReadTotals(run("report", "totals").Stdout)
	single := vReadSingle(run("reg", "-s", X).Stdout, X)
	balS := vReadBalance(run("bal", "-s", X).Stdout, true)
	bal := vReadBalance(run("bal").Stdout, false)
	quantity := vReadValName(run("report", "quantity").Stdout)
	csvLog, err := vReadCSV(run("csv", "log").Stdout)
	if err != nil {
		vViolate("C07: csv log is not readable CSV: %v", err)
	}
	elemTotal := vReadValName(run("report", "element-total", X).Stdout)
	csvRes, err := vReadCSV(run("csv", "database-resolved").Stdout)
	if err != nil {
		vViolate("C07: csv database-resolved is not readable CSV: %v", err)
	}
	unresolved := vLines(run("report", "unresolved").Stdout)
	byFood := vReadValName(run("reg", "-s", X, "-g").Stdout)

	// shape / non-triviality
	isDef := map[string]bool{}
	for _, r := range c.S.Book.Parsed() {
		isDef[r.Head] = true
	}
	res := vModelResolve(c.S.Book.Parsed())
	nested, unres := false, false
	for _, row := range csvLog {
		if res.Height[row[1]] >= 2 {
			nested = true
		}
		if !isDef[row[1]] {
			unres = true
		}
	}
	xFoods := map[string]bool{}
	for _, row := range csvLog {
		if el, ok := res.Elems[row[1]]; ok {
			if _, has := el[X]; has {
				xFoods[row[1]] = true
			}
		} else if row[1] == X {
			xFoods[row[1]] = true
		}
	}
	ctx.NonTrivial(len(regDays) >= 2 && nested && unres && len(xFoods) >= 2)
	if exact {
		ctx.Label("exact-mode")
	} else {
		ctx.Label("decimal-mode")
	}
	if len(period) > 0 {
		ctx.Label("period")
	}

	// R1: report totals = sum over days of the register's daily totals, in the default presentation and in one other
	// (old reporter, totals only, left-aligned template: the totals are the same figures)
	r1Alt := [][]string{{"reg", "--use-old-reg-reporter"}, {"reg", "--use-old-reg-reporter", "--totals-only"}, {"reg", "--totals-only"}, {"reg", "--internal-template-name", "left-aligned"},
		{"reg", "--shorten"}, {"reg", "--shorten", "--totals-only"}, {"reg", "--use-old-reg-reporter", "--shorten"}, {"reg", "@coloured"}}[(len(regDays)+len(totals))%8]
	for variant := 0; variant < 2; variant++ {
		days := regDays
		if variant == 1 && r1Alt[len(r1Alt)-1] == "@coloured" {
			// with colours (the escape codes removed): the figures are the figures of the plain output
			args := append(append([]string{}, period...), fileArgs("reg")...)
			env := map[string]string{}
			if c.Depth > 0 {
				switch c.DepthVia {
				case "env":
					env["HR_MAXDEPTH"] = fmt.Sprint(c.Depth)
				case "config":
					args = append([]string{"--config", vWriteFile("c07.conf", fmt.Sprintf("[Resolver]\nMaxDepth=%d\n", c.Depth))}, args...)
				default:
					args = append([]string{"--maxdepth", fmt.Sprint(c.Depth)}, args...)
				}
			}
			r := vRunApp(vInvocation{Args: args, Env: env})
			ctx.Run(1)
			if r.Failed {
				vViolate("C07: coloured reg failed on valid input: %s", r)
			}
			days = vReadRegister(vAnsiRe.ReplaceAllString(r.Stdout, ""))
		} else if variant == 1 {
			out := run(r1Alt...).Stdout
			if r1Alt[1] == "--internal-template-name" {
				days = vReadRegisterLA(out)
			} else {
				days = vReadRegister(out)
			}
		}
		if variant == 1 && len(r1Alt) > 1 && (r1Alt[1] == "--shorten" || r1Alt[len(r1Alt)-1] == "--shorten") {
			// shortened names cannot be matched one to one with the full names of report totals: the amounts over all
			// elements are compared instead
			var parts []*big.Rat
			for _, d := range days {
				for _, t := range d.Totals {
					parts = append(parts, vNum(t.Pos), vNum(t.Neg))
				}
			}
			all := new(big.Rat)
			for _, t := range totals {
				all.Add(all, vNum(t.Pos))
				all.Add(all, vNum(t.Neg))
				parts = append(parts, new(big.Rat)) // one more rounded figure on the other side
			}
			if !vSumEq(all, parts, exact, vCent) {
				return vFailf("R1: the positive and negative amounts of report totals add up to %s over all elements, the daily totals of %v to something else (%d figures)", all.FloatString(2), r1Alt, len(parts))
			}
			ctx.Label("R1-shortened")
			continue
		}
		pos, neg, sum := map[string][]*big.Rat{}, map[string][]*big.Rat{}, map[string][]*big.Rat{}
		for _, d := range days {
			for _, t := range d.Totals {
				pos[t.Name] = append(pos[t.Name], vNum(t.Pos))
				neg[t.Name] = append(neg[t.Name], vNum(t.Neg))
				sum[t.Name] = append(sum[t.Name], vNum(t.Sum))
			}
		}
		if len(totals) != len(sum) {
			return vFailf("R1: report totals lists %d elements, the register's daily totals mention %d (presentation %d of %v)", len(totals), len(sum), variant, r1Alt)
		}
		for _, t := range totals {
			if _, ok := sum[t.Name]; !ok {
				return vFailf("R1: report totals has element %q that no daily total of reg shows", t.Name)
			}
			if !vSumEq(vNum(t.Pos), pos[t.Name], exact, vCent) || !vSumEq(vNum(t.Neg), neg[t.Name], exact, vCent) || !vSumEqMag(vNum(t.Sum), sum[t.Name], exact, vCent, append(append([]*big.Rat{}, pos[t.Name]...), neg[t.Name]...)) {
				return vFailf("R1: report totals row %v is not the sum of the register's daily totals for %q (pos %v, neg %v, sum %v; presentation %d of %v)", t, t.Name, pos[t.Name], neg[t.Name], sum[t.Name], variant, r1Alt)
			}
		}
		ctx.Label("R1")
	}
	var totX *vTotRow
	for i := range totals {
		if totals[i].Name == X {
			totX = &totals[i]
		}
	}
	// R2: totals[X] = sum of reg -s X rows
	{
		var ps, ns, ss []*big.Rat
		for _, r := range single {
			ps = append(ps, vNum(r.Pos))
			ns = append(ns, new(big.Rat).Neg(vNum(r.Neg)))
			ss = append(ss, vNum(r.Sum))
		}
		if totX == nil {
			if len(single) != 0 {
				return vFailf("R2: reg -s %q has %d rows but report totals has no such element", X, len(single))
			}
		} else {
			if len(single) == 0 {
				return vFailf("R2: report totals lists %q but reg -s %q shows no row", X, X)
			}
			if !vSumEq(vNum(totX.Pos), ps, exact, vCent) || !vSumEq(vNum(totX.Neg), ns, exact, vCent) || !vSumEqMag(vNum(totX.Sum), ss, exact, vCent, append(append([]*big.Rat{}, ps...), ns...)) {
				return vFailf("R2: report totals row %v differs from the sums of the reg -s %q rows %v", *totX, X, single)
			}
			ctx.Label("R2")
		}
	}
	// R3: grand total of bal -s X = totals[X].sum
	{
		want := new(big.Rat)
		if totX != nil {
			want = vNum(totX.Sum)
		}
		var behind []*big.Rat
		if totX != nil {
			behind = []*big.Rat{vNum(totX.Pos), vNum(totX.Neg)}
		}
		if !vSumEqMag(vNum(balS.Total), []*big.Rat{want}, exact, vCent, behind) {
			return vFailf("R3: bal -s %q grand total %s, report totals says %s", X, balS.Total, want.FloatString(2))
		}
		if totX != nil {
			ctx.Label("R3")
		}
	}
	// R4: bal row = sum of quantity rows at or below = sum of csv log rows at or below
	{
		for _, row := range bal.Rows {
			var qs, cs []*big.Rat
			for _, q := range quantity {
				if q.Name == row.Path || strings.HasPrefix(q.Name, row.Path+"/") {
					qs = append(qs, vNum(q.Val))
				}
			}
			for _, r := range csvLog {
				if r[1] == row.Path || strings.HasPrefix(r[1], row.Path+"/") {
					cs = append(cs, vNum(r[2]))
				}
			}
			if !vSumEq(vNum(row.Val), qs, exact, vCent) {
				return vFailf("R4: bal shows %s at %q, report quantity rows at or below it sum to %v", row.Val, row.Path, qs)
			}
			if !vSumEq(vNum(row.Val), cs, exact, vCent) {
				return vFailf("R4: bal shows %s at %q, csv log rows at or below it are %v", row.Val, row.Path, cs)
			}
		}
		// every quantity row is a bal path and quantity = per-food sum of csv log
		balPaths := map[string]bool{}
		for _, r := range bal.Rows {
			balPaths[r.Path] = true
		}
		perFood := map[string][]*big.Rat{}
		for _, r := range csvLog {
			perFood[r[1]] = append(perFood[r[1]], vNum(r[2]))
		}
		if len(perFood) != len(quantity) {
			return vFailf("R4: report quantity lists %d foods, csv log mentions %d", len(quantity), len(perFood))
		}
		for _, q := range quantity {
			if !balPaths[q.Name] {
				return vFailf("R4: food %q of report quantity is not a path of bal", q.Name)
			}
			if !vSumEq(vNum(q.Val), perFood[q.Name], exact, vCent) {
				return vFailf("R4: report quantity shows %s for %q, csv log rows are %v", q.Val, q.Name, perFood[q.Name])
			}
		}
		if len(bal.Rows) > 0 {
			ctx.Label("R4")
		}
	}
	// R5: element-total rows = csv database-resolved rows whose element is X
	{
		want := map[string]string{}
		for _, r := range csvRes {
			if r[1] == X {
				want[r[0]] = r[2]
			}
		}
		if len(want) != len(elemTotal) {
			return vFailf("R5: report element-total %q has %d rows, csv database-resolved has %d rows for that element", X, len(elemTotal), len(want))
		}
		for _, e := range elemTotal {
			if w, ok := want[e.Name]; !ok || w != e.Val {
				return vFailf("R5: report element-total %q row (%s, %q) does not match csv database-resolved (%q)", X, e.Val, e.Name, w)
			}
		}
		if len(want) > 0 {
			ctx.Label("R5")
		}
	}
	// R6: summary D = the day-D blocks of reg (date-only formats: with a clock component the argument is an instant)
	if !c.Clock {
		seen := map[string]bool{}
		for _, d := range regDays {
			if seen[d.Date] {
				continue
			}
			seen[d.Date] = true
			sm := vReadSummary(run("summary", d.Date).Stdout)
			var blocks []vRegDay
			for _, dd := range regDays {
				if dd.Date == d.Date {
					blocks = append(blocks, dd)
				}
			}
			// the period flags do not apply to summary: it may show more blocks of that date
			// only if the period excluded them, which cannot happen (same date) — so equal counts
			if len(sm) != len(blocks) {
				return vFailf("R6: summary %s shows %d blocks, reg shows %d for that date", d.Date, len(sm), len(blocks))
			}
			for i, b := range blocks {
				s := sm[i]
				if len(s.Totals) != len(b.Totals) || len(s.Foods) != len(b.Foods) {
					return vFailf("R6: summary %s block %d has %d totals/%d foods, reg has %d/%d", d.Date, i, len(s.Totals), len(s.Foods), len(b.Totals), len(b.Foods))
				}
				for k := range b.Totals {
					if s.Totals[k].Name != b.Totals[k].Name || s.Totals[k].Val != b.Totals[k].Pos {
						return vFailf("R6: summary %s total %d = %v, reg says %v", d.Date, k, s.Totals[k], b.Totals[k])
					}
				}
				for k := range b.Foods {
					if s.Foods[k].Name != b.Foods[k].Name || s.Foods[k].Val != b.Foods[k].Val {
						return vFailf("R6: summary %s food %d = %v, reg says (%s, %s)", d.Date, k, s.Foods[k], b.Foods[k].Name, b.Foods[k].Val)
					}
				}
			}
			ctx.Label("R6")
		}
	}
	// R7: unresolved = foods of csv log minus headings of the book, each once
	{
		want := map[string]bool{}
		for _, r := range csvLog {
			if !isDef[r[1]] {
				want[r[1]] = true
			}
		}
		got := map[string]bool{}
		for _, u := range unresolved {
			if got[u] {
				return vFailf("R7: report unresolved lists %q twice", u)
			}
			got[u] = true
		}
		if len(got) != len(want) {
			return vFailf("R7: report unresolved lists %q, expected exactly %q", unresolved, vSortedKeys(want))
		}
		for u := range want {
			if !got[u] {
				return vFailf("R7: logged food %q is not in the book but missing from report unresolved %q", u, unresolved)
			}
		}
		if len(want) > 0 {
			ctx.Label("R7")
		}
	}
	// R8: stats
	if len(c.S.Log.Recs) > 0 && !c.Clock {
		st := vReadStats(run("stats").Stdout)
		pr := vReadPrint(vRunApp(vInvocation{Args: f.Args("print")}).Stdout)
		ctx.Run(1)
		if st.LogRecords != fmt.Sprint(len(c.S.Log.Recs)) || len(pr) != len(c.S.Log.Recs) {
			return vFailf("R8: stats counts %s log records, print emits %d blocks, the log has %d headings", st.LogRecords, len(pr), len(c.S.Log.Recs))
		}
		if st.DbRecords != fmt.Sprint(len(c.S.Book.Recs)) {
			return vFailf("R8: stats counts %s database records, the book has %d headings", st.DbRecords, len(c.S.Book.Recs))
		}
		if st.Today != vToday {
			return vFailf("R8: stats shows today = %q, --today was %s", st.Today, vToday)
		}
		if c.Sorted {
			first, last := c.S.Days[0], c.S.Days[len(c.S.Days)-1]
			today := 9 // vToday = 2021/01/10
			if st.First != vFmtDay(first, "") || st.FirstAgo != fmt.Sprint(today-first) || st.Last != vFmtDay(last, "") || st.LastAgo != fmt.Sprint(today-last) {
				return vFailf("R8: stats first/last = %s (%s days ago) / %s (%s days ago); the log runs from %s to %s and today is %s", st.First, st.FirstAgo, st.Last, st.LastAgo, vFmtDay(first, ""), vFmtDay(last, ""), vToday)
			}
		}
		ctx.Label("R8")
	}
	// R9: reg -f P rows = csv log rows whose food contains the literal
	{
		lits := map[string]bool{}
		for _, r := range csvLog {
			lits[r[1]] = true
			if len(r[1]) > 1 {
				lits[r[1][:len(r[1])/2+1]] = true // may split a multi-byte rune: still a valid byte-literal? keep only valid UTF-8
			}
		}
		n := 0
		for _, lit := range vSortedKeys(lits) {
			if !vValidUTF8(lit) || n >= 3 {
				continue
			}
			n++
			// the literal as it is (matches anywhere in the name) and anchored at both ends, at the start or at the end
			forms := []struct {
				pat   string
				match func(name string) bool
				what  string
			}{
				{vQuoteMeta(lit), func(name string) bool { return strings.Contains(name, lit) }, "contains it"},
				{"^" + vQuoteMeta(lit) + "$", func(name string) bool { return name == lit }, "is exactly it"},
				{"^" + vQuoteMeta(lit), func(name string) bool { return strings.HasPrefix(name, lit) }, "starts with it"},
				{vQuoteMeta(lit) + "$", func(name string) bool { return strings.HasSuffix(name, lit) }, "ends with it"},
				{"^(" + vQuoteMeta(lit) + ")$", func(name string) bool { return name == lit }, "is exactly it"},
			}
			for fi, form := range forms {
				if fi >= 2 && fi != 2+(n+len(csvLog))%3 {
					continue
				}
				rows := vReadSingleFood(run("reg", "-f", form.pat).Stdout)
				var want [][]string
				for _, r := range csvLog {
					if form.match(r[1]) {
						want = append(want, r)
					}
				}
				if len(rows) != len(want) {
					return vFailf("R9: reg -f %q shows %d rows, csv log has %d rows whose food %s", form.pat, len(rows), len(want), form.what)
				}
				for i, w := range want {
					g := rows[i]
					if dayOf(g.Date) != isoToSlash(w[0]) || g.Name != w[1] || vRatAbs(vRatSub(vNum(g.Val), vNum(w[2]))).Cmp(big.NewRat(55, 10000)) > 0 {
						return vFailf("R9: reg -f %q row %d = %v, csv log row = %v", form.pat, i, g, w)
					}
				}
			}
			ctx.Label("R9")
		}
	}
	// R10: reg -s X -g row of a book food F = bal -s X amount at path F
	{
		paths := map[string]string{}
		for _, r := range balS.Rows {
			paths[r.Path] = r.Val
		}
		names := []string{}
		for _, r := range byFood {
			names = append(names, r.Name)
		}
		for _, r := range byFood {
			prefixOfAnother := false
			for p := range paths {
				if strings.HasPrefix(p, r.Name+"/") {
					prefixOfAnother = true
				}
			}
			if prefixOfAnother {
				continue
			}
			bv, ok := paths[r.Name]
			if !ok {
				return vFailf("R10: reg -s %q -g lists food %q, bal -s %q has no such path", X, r.Name, X)
			}
			if !vSumEq(vNum(bv), []*big.Rat{vNum(r.Val)}, exact, vCent) {
				return vFailf("R10: reg -s %q -g shows %s for %q, bal -s shows %s", X, r.Val, r.Name, bv)
			}
			ctx.Label("R10")
		}
		if !sort.StringsAreSorted(names) {
			return vFailf("R10: reg -s -g rows are not sorted by food: %q", names)
		}
	}
	// R11: food rows of reg per day = csv log rows of that day
	{
		i := 0
		for _, d := range regDays {
			for _, fd := range d.Foods {
				if i >= len(csvLog) {
					return vFailf("R11: reg shows more food rows than csv log has rows (%d)", len(csvLog))
				}
				r := csvLog[i]
				i++
				if isoToSlash(r[0]) != dayOf(d.Date) || r[1] != fd.Name || vRatAbs(vRatSub(vNum(fd.Val), vNum(r[2]))).Cmp(big.NewRat(55, 10000)) > 0 {
					return vFailf("R11: reg food row (%s, %q, %s) differs from csv log row %v", d.Date, fd.Name, fd.Val, r)
				}
			}
		}
		if i != len(csvLog) {
			return vFailf("R11: csv log has %d rows, reg shows %d food rows", len(csvLog), i)
		}
		if i > 0 {
			ctx.Label("R11")
		}
	}
	// R12: a food pattern that matches every food changes nothing in the single-element reports
	// (whichever of the two selections has priority, "." selects every food)
	if X != "" {
		for _, extra := range [][]string{{"reg", "-s", X, "-f", "."}, {"reg", "-f", ".", "-s", X, "-g"}} {
			base := []string{"reg", "-s", X}
			if extra[len(extra)-1] == "-g" {
				base = append(base, "-g")
			}
			a, b := run(base...).Stdout, run(extra...).Stdout
			if a != b {
				return vFailf("R12: %v and %v print different reports although \".\" matches every food:\n%s\nversus\n%s", base, extra, vTrunc(a, 600), vTrunc(b, 600))
			}
		}
		ctx.Label("R12")
	}
	return nil
}

func vValidUTF8(s string) bool {
	return strings.ToValidUTF8(s, "�") == s && !strings.Contains(s, "�")
}

// vQuoteMeta escapes regular-expression metacharacters (own implementation).
func vQuoteMeta(s string) string {
	var sb strings.Builder
	for _, r := range s {
		if strings.ContainsRune(`\.+*?()|[]{}^$`, r) {
			sb.WriteByte('\\')
		}
		sb.WriteRune(r)
	}
	return sb.String()
}

func genC07(t *rapid.T) c07Case {
	vLongNameOneIn = 4 // names longer than the columns of the register (shortened there with --shorten, nowhere else)
	defer func() { vLongNameOneIn = 10 }()
	sorted := rapid.Bool().Draw(t, "sorted")
	s := vGenScenario(t, vScenOpts{Paths: rapid.Bool().Draw(t, "paths"), MinDays: 1, MaxDays: 6, MaxEntries: 5, Sorted: sorted, NUnknown: 3, Window: 8})
	c := c07Case{S: s, Sorted: sorted, Begin: c07Absent, End: c07Absent}
	// one book in six declares a recipe twice (which declaration wins is the program's business, the reports must still agree)
	if len(s.Book.Recs) > 0 && rapid.IntRange(0, 5).Draw(t, "dup") == 0 {
		src := s.Book.Recs[rapid.IntRange(0, len(s.Book.Recs)-1).Draw(t, "dupwhich")]
		cp := vRec{Head: src.Head, HL: src.HL}
		for _, l := range src.Lines {
			if l.Kind == vkEntry && rapid.Bool().Draw(t, "dupkeep") {
				cp.Lines = append(cp.Lines, l)
			}
		}
		s.Book.Recs = append(s.Book.Recs, cp)
		s.Book.NoFinalNL = false
		c.S = s
	}
	switch rapid.IntRange(0, 5).Draw(t, "x") {
	case 0:
		c.X = "absent-element"
	case 5:
		// an element name that is a heading of the book
		if len(s.Recipes) > 0 {
			c.X = s.Recipes[rapid.IntRange(0, len(s.Recipes)-1).Draw(t, "xr")]
		} else {
			c.X = "absent-element"
		}
	default:
		c.X = s.Basics[rapid.IntRange(0, len(s.Basics)-1).Draw(t, "xi")]
	}
	if rapid.Bool().Draw(t, "period") {
		if rapid.Bool().Draw(t, "hasb") {
			c.Begin = rapid.IntRange(0, 7).Draw(t, "b")
		}
		if rapid.Bool().Draw(t, "hase") {
			c.End = rapid.IntRange(0, 7).Draw(t, "e")
		}
	}
	c.Split = rapid.IntRange(0, 3).Draw(t, "split")
	xBasic := false
	for _, b := range s.Basics {
		xBasic = xBasic || b == c.X
	}
	if xBasic && rapid.IntRange(0, 4).Draw(t, "deep") == 0 {
		// a chain of 10..16 recipes that ends in X, and a limit that allows it (set by flag, variable or configuration file);
		// or a limit below the default with a book that stays below it
		L := rapid.IntRange(10, 16).Draw(t, "deeplen")
		chain := c11Chain("deep~", L)
		chain[L-1].Lines[0].Name = c.X
		c.S.Book.Recs = append(c.S.Book.Recs, chain...)
		c.S.Book.NoFinalNL = false
		c.Depth = L + rapid.IntRange(1, 4).Draw(t, "deepslack")
		c.DepthVia = []string{"flag", "env", "config", "config"}[rapid.IntRange(0, 3).Draw(t, "deepvia")]
	}
	if rapid.IntRange(0, 4).Draw(t, "clock") == 0 {
		// a date format with a clock component: several records of one calendar day at different times, bounds inside a day
		minute := func(label string) int {
			if rapid.Bool().Draw(t, label+".edge") {
				return []int{0, 1, 719, 720, 1438, 1439}[rapid.IntRange(0, 5).Draw(t, label+".e")]
			}
			return rapid.IntRange(0, 1439).Draw(t, label+".m")
		}
		c.Clock = true
		for i := range c.S.Log.Recs {
			c.Mins = append(c.Mins, minute(fmt.Sprintf("min%d", i)))
		}
		c.BeginMin, c.EndMin = minute("bmin"), minute("emin")
	}
	return c
}

// ---------------------------------------------------------------------------
// stats day distances across century and leap-year boundaries (R8, enumerated)

// vDaysFromCivil: day number (0 = 2021-01-01) of a proleptic Gregorian date, by integer arithmetic.
func vDaysFromCivil(y, m, d int) int {
	if m <= 2 {
		y--
	}
	era := y / 400
	if y < 0 {
		era = (y - 399) / 400
	}
	yoe := y - era*400
	mp := (m + 9) % 12
	doy := (153*mp+2)/5 + d - 1
	doe := yoe*365 + yoe/4 - yoe/100 + doy
	return era*146097 + doe - 719468 - 18628 // 18628 = days from 1970-01-01 to 2021-01-01
}

var c07StatsDates = [][3]int{{1899, 12, 31}, {1900, 1, 1}, {1900, 2, 28}, {1900, 3, 1}, {1900, 12, 31}, {1901, 1, 1}, {1999, 12, 31}, {2000, 2, 29},
	{2000, 3, 1}, {2020, 2, 29}, {2020, 12, 31}, {2021, 1, 1}, {2021, 6, 15}, {2099, 12, 31}, {2100, 2, 28}, {2100, 3, 1}, {2100, 12, 31}, {2101, 1, 1}, {2104, 2, 29}}

type c07StatsCase struct {
	First [3]int `json:"first"`
	Last  [3]int `json:"last"`
	Today [3]int `json:"today"`
}

func checkC07Stats(c c07StatsCase, ctx *vCtx) *vFailure {
	f, l, t := vDaysFromCivil(c.First[0], c.First[1], c.First[2]), vDaysFromCivil(c.Last[0], c.Last[1], c.Last[2]), vDaysFromCivil(c.Today[0], c.Today[1], c.Today[2])
	for _, pr := range [][2]interface{}{{f, c.First}, {l, c.Last}, {t, c.Today}} {
		y, m, d := vCivil(pr[0].(int))
		if [3]int{y, m, d} != pr[1].([3]int) {
			vFault("date arithmetic of the harness disagrees with itself on %v", pr[1])
		}
	}
	fm := func(d [3]int) string { return fmt.Sprintf("%04d/%02d/%02d", d[0], d[1], d[2]) }
	lp := vWriteFile("c07s-log.yaml", fmt.Sprintf("%s:\n  a: 1\n%s:\n  b: 2\n", fm(c.First), fm(c.Last)))
	bp := vWriteFile("c07s-book.yaml", "a:\n  x: 1\n")
	r := vRunApp(vInvocation{Args: []string{"--today", fm(c.Today), "-d", bp, "-l", lp, "stats"}})
	ctx.Run(1)
	if r.Failed {
		return vFailf("stats failed: %s", r)
	}
	st := vReadStats(r.Stdout)
	ctx.NonTrivial(true)
	if st.First != fm(c.First) || st.Last != fm(c.Last) || st.Today != fm(c.Today) {
		return vFailf("stats shows today/first/last = %s / %s / %s, expected %s / %s / %s", st.Today, st.First, st.Last, fm(c.Today), fm(c.First), fm(c.Last))
	}
	if st.FirstAgo != fmt.Sprint(t-f) || st.LastAgo != fmt.Sprint(t-l) {
		return vFailf("stats with --today %s: first record %s is %s days ago (expected %d), last record %s is %s days ago (expected %d)", fm(c.Today), fm(c.First), st.FirstAgo, t-f, fm(c.Last), st.LastAgo, t-l)
	}
	return nil
}

func c07StatsSpace() []c07StatsCase {
	var out []c07StatsCase
	ds := c07StatsDates
	for i := range ds {
		for j := range ds {
			for k := range ds {
				if (i+j+k)%3 != 0 && !vThorough() {
					continue
				}
				// time.Duration holds about 292 years
				if a, b := vDaysFromCivil(ds[i][0], ds[i][1], ds[i][2]), vDaysFromCivil(ds[k][0], ds[k][1], ds[k][2]); a-b > 100000 || b-a > 100000 {
					continue
				}
				if a, b := vDaysFromCivil(ds[j][0], ds[j][1], ds[j][2]), vDaysFromCivil(ds[k][0], ds[k][1], ds[k][2]); a-b > 100000 || b-a > 100000 {
					continue
				}
				out = append(out, c07StatsCase{First: ds[i], Last: ds[j], Today: ds[k]})
			}
		}
	}
	return out
}

func TestVerifC07Stats(t *testing.T) {
	space := c07StatsSpace()
	vEnum(t, "C07", "c07.stats",
		"stats day distances: first record, last record and --today each from 19 dates around century ends (1900, 2000, 2100), leap days and year ends, all combinations within 100000 days of each other (quick: a third); expected distances by integer calendar arithmetic",
		fmt.Sprintf("%d (first, last, today) triples", len(space)), len(space), func(i int) c07StatsCase { return space[i] }, checkC07Stats)
}

func init() {
	vRegister("C07", "c07.random", checkC07)
	vRegister("C07", "c07.stats", checkC07Stats)
}

func TestVerifC07Random(t *testing.T) {
	vRapid(t, "C07", "c07.random",
		"random books (depth <=3) and logs (1-6 days, repeats, negatives, unknown foods, category-path names in half of the cases), optional period inside the log, element X (basic element, possibly logged directly, or absent); relations R1-R11 between the outputs of 14 commands, exact in exact-arithmetic mode, (n+1)/2 units of the last digit otherwise; non-trivial = >=2 days shown, a nested recipe logged, an unresolved food, X contributed by >=2 foods",
		vBudget(2400, 40000), genC07, checkC07)
}
