//go:build go1.21

package main

// C18 — the channel parser delivers the callback parser's result under every schedule.

import (
	"fmt"
	"io"
	"os"
	"os/exec"
	"path/filepath"
	"reflect"
	"runtime"
	"strings"
	"syscall"
	"testing"
	"time"

	shared "github.com/aquilax/hranoprovod-cli/v3"
	"github.com/aquilax/hranoprovod-cli/v3/parser"
	"pgregory.net/rapid"
)

type c18Case struct {
	Doc         vDoc   `json:"doc"`
	Input       string `json:"input"`  // "stream" | "failing-reader" | "missing-file" | "file"
	FailAt      int    `json:"failat"` // permille of the text length (failing-reader)
	Policy      string `json:"policy"` // "documented" | "drain"
	Yields      []int  `json:"yields"` // consumer: Gosched calls before the i-th receive (cyclic)
	SleepsUS    []int  `json:"sleeps"` // consumer: sleep before the i-th receive, microseconds (cyclic)
	ProdUS      []int  `json:"produs"` // producer: sleep between chunks, microseconds (cyclic)
	Chunks      []int  `json:"chunks"`
	Procs       int    `json:"procs"`
	Comment     int    `json:"comment"`               // parser configuration: 0 default, 1 the zero Config{}, 2 ';' as comment character
	LongLine    int    `json:"longline"`              // > 0: a note line of that many bytes is inserted after the first heading
	Warmup      int    `json:"warmup"`                // the same Parser value first parses this many other streams (the first with an error), drained to Done
	Err         int    `json:"err"`                   // failing-reader: index into c10Errors
	Skip        int    `json:"skip"`                  // seekable: permille of the text already consumed by the caller before parsing
	EOFWithData bool   `json:"eofwithdata,omitempty"` // the reader reports io.EOF together with its last bytes
	Transient   bool   `json:"transient,omitempty"`   // failing-reader: one read fails, the following reads succeed
	FifoPauseMS int    `json:"fifopausems,omitempty"` // fifo input: the writer pauses this long after half of the text
	SameStat    bool   `json:"samestat,omitempty"`    // file input: the path held other text of the same length and the same times when it was parsed just before
	NameForm    int    `json:"nameform,omitempty"`    // odd-name: which spelling of the file name is handed to the parsers
	Neighbour   int    `json:"neighbour,omitempty"`   // other parsing in the same process meanwhile: 1 the consumer calls the callback parser between receives, 2 a second channel parser delivers another stream at the same time, 3 a goroutine keeps running the callback parser
	BOM         bool   `json:"bom"`                   // the text starts with a UTF-8 byte order mark (both parsers must treat it alike)
}

func (c c18Case) config() parser.Config {
	switch c.Comment {
	case 1:
		return parser.Config{}
	case 2:
		return parser.Config{CommentChar: ';'}
	}
	return parser.NewDefaultConfig()
}

// vSlowReader wraps a reader with drawn delays/yields between reads.
type vSlowReader struct {
	r      io.Reader
	delays []int
	i      int
}

func (s *vSlowReader) Read(p []byte) (int, error) {
	if len(s.delays) > 0 {
		d := s.delays[s.i%len(s.delays)]
		s.i++
		if s.i > 300 {
			d = 0 // bound the producer's total delay (at most 300 sleeps of <= 200 us)
		}
		if d > 0 {
			time.Sleep(time.Duration(d) * time.Microsecond)
		} else {
			runtime.Gosched()
		}
	}
	return s.r.Read(p)
}

// vStallReader hands out its data and then blocks instead of reporting the end: a pipe whose writer is still alive.
// Whoever has seen a parse error in the data must not wait for more.
type vStallReader struct {
	data    []byte
	pos     int
	release chan struct{}
}

func (s *vStallReader) Read(p []byte) (int, error) {
	if s.pos < len(s.data) {
		n := copy(p, s.data[s.pos:])
		s.pos += n
		return n, nil
	}
	<-s.release
	return 0, io.EOF
}

type c18Event struct {
	Kind   string // "node" | "error" | "done"
	Rec    vGotRec
	Err    string
	ErrVal error `json:"-"` // the error value itself (the two parsers must hand out equal values, not only equal texts)
}

func (e c18Event) String() string {
	switch e.Kind {
	case "node":
		if len(e.Rec.Notes) > 0 {
			return fmt.Sprintf("node(%q,%d entries,%d notes)", e.Rec.Head, len(e.Rec.Names), len(e.Rec.Notes))
		}
		return fmt.Sprintf("node(%q,%d entries)", e.Rec.Head, len(e.Rec.Names))
	case "error":
		return "error(" + e.Err + ")"
	}
	return "done"
}

func c18Fmt(evs []c18Event) string {
	var s []string
	for _, e := range evs {
		s = append(s, e.String())
	}
	return "[" + strings.Join(s, ", ") + "]"
}

func c18GoroutineDump() string {
	buf := make([]byte, 1<<20)
	n := runtime.Stack(buf, true)
	return string(buf[:n])
}

// c18ProducerParked: some goroutine of the dump is inside the channel parser AND parked in a channel send.
func c18ProducerParked(dump string) bool {
	for _, g := range strings.Split(dump, "\n\n") {
		if strings.Contains(g, "[chan send") && strings.Contains(g, "parser.Parser.Parse") {
			return true
		}
	}
	return false
}

// c18Between is what the consumer does between two receives (nil: nothing); set by checkC18 for the case at hand.
var c18Between func() *vFailure

// c18NeighbourText is a stream other than the one under test, at least as long as it.
func c18NeighbourText(n int) string {
	var b strings.Builder
	for i := 0; b.Len() < n+200; i++ {
		fmt.Fprintf(&b, "nb~rec %d:\n  nb~x: %d\n  nb~y: 22\n# neighbour\n", i, i+11)
	}
	return b.String()
}

func c18Callback(text string) []c18Event {
	var evs []c18Event
	err := parser.ParseStreamCallback(strings.NewReader(text), parser.NewDefaultConfig(), func(n *shared.ParserNode, e error) (bool, error) {
		if e != nil {
			return true, e
		}
		evs = append(evs, c18Event{Kind: "node", Rec: vGotFromNode(n)})
		return false, nil
	})
	if err != nil {
		return append(evs, c18Event{Kind: "error", Err: err.Error()})
	}
	return append(evs, c18Event{Kind: "done"})
}

// checkC18 runs the case; when the case asks for it, other parsing goes on in the same process meanwhile (a consumer
// that looks something up in another file between two receives, a second stream delivered by a second Parser, a
// goroutine that parses on its own). Every parse, the one under test and the neighbours, must see its own stream only.
func checkC18(c c18Case, ctx *vCtx) *vFailure {
	if c.Neighbour == 0 || c.Input == "huge" || c.Input == "merge" || c.Input == "otheruser" {
		c18Between = nil
		if c.Input == "huge" {
			return checkC18Huge(c, ctx)
		}
		if c.Input == "merge" {
			return checkC18Merge(c, ctx)
		}
		if c.Input == "otheruser" {
			return checkC18OtherUser(c, ctx)
		}
		return checkC18One(c, ctx)
	}
	ctx.Labelf("neighbour=%d", c.Neighbour)
	nbText := c18NeighbourText(len(c.Doc.Render()))
	nbWant := c18Fmt(c18Callback(nbText))
	var fail *vFailure
	switch c.Neighbour {
	case 1:
		c18Between = func() *vFailure {
			if got := c18Fmt(c18Callback(nbText)); got != nbWant {
				return vFailf("the callback parser, called by the consumer between two receives on another text, reports %s; on its own it reports %s", vTrunc(got, 600), vTrunc(nbWant, 600))
			}
			return nil
		}
		fail = checkC18One(c, ctx)
		c18Between = nil
	case 2:
		c18Between = nil
		p2 := parser.NewParser(parser.NewDefaultConfig())
		go p2.ParseStream(&vSlowReader{r: strings.NewReader(nbText), delays: []int{0, 1, 0, 20}})
		res := make(chan string, 1)
		go func() {
			var evs []c18Event
			for {
				select {
				case n := <-p2.Nodes:
					evs = append(evs, c18Event{Kind: "node", Rec: vGotFromNode(n)})
				case err := <-p2.Errors:
					evs = append(evs, c18Event{Kind: "error", Err: err.Error()})
				case <-p2.Done:
					res <- c18Fmt(append(evs, c18Event{Kind: "done"}))
					return
				}
				runtime.Gosched()
			}
		}()
		fail = checkC18One(c, ctx)
		select {
		case got := <-res:
			if fail == nil && got != nbWant {
				fail = vFailf("a second Parser delivering another stream at the same time received %s; on its own that stream gives %s", vTrunc(got, 600), vTrunc(nbWant, 600))
			}
		case <-time.After(30 * time.Second):
			if fail == nil {
				vFault("C18: the neighbouring parser did not finish within 30 s (inconclusive)")
			}
		}
	default:
		c18Between = nil
		stop, res := make(chan struct{}), make(chan string, 1)
		go func() {
			bad := ""
			for {
				select {
				case <-stop:
					res <- bad
					return
				default:
				}
				if got := c18Fmt(c18Callback(nbText)); got != nbWant && bad == "" {
					bad = got
				}
				runtime.Gosched()
			}
		}()
		fail = checkC18One(c, ctx)
		close(stop)
		if bad := <-res; fail == nil && bad != "" {
			fail = vFailf("the callback parser running in another goroutine on another text reported %s; on its own it reports %s", vTrunc(bad, 600), vTrunc(nbWant, 600))
		}
	}
	return fail
}

func checkC18One(c c18Case, ctx *vCtx) *vFailure {
	text := c.Doc.Render()
	if c.LongLine > 0 {
		if i := strings.Index(text, "\n"); i >= 0 {
			text = text[:i+1] + "  # " + strings.Repeat("n", c.LongLine-4) + "\n" + text[i+1:]
		}
		ctx.Labelf("long-line=%d", c.LongLine)
	}
	if c.BOM {
		text = "\xef\xbb\xbf" + text
		ctx.Label("bom")
	}
	cfg := c.config()
	ctx.Labelf("config=%d", c.Comment)
	if len(text) > 4096 {
		// keep the producer's total delay bounded on big inputs: yields only, no tiny chunks
		c.ProdUS = nil
		if len(c.Chunks) > 0 {
			c.Chunks = []int{4096, 1000}
		}
	}
	mkReader := func() io.Reader {
		switch c.Input {
		case "failing-reader":
			return &vFaultReader{data: []byte(text), failAt: c.FailAt * len(text) / 1000, err: c10Errors[c.Err%len(c10Errors)], chunks: c.Chunks, withLast: c.EOFWithData && !c.Transient, once: c.Transient}
		case "seekable":
			// a seekable reader the caller has already read from: only the rest is to be parsed
			r := strings.NewReader(text)
			_, _ = r.Seek(int64(c.Skip*len(text)/1000), io.SeekStart)
			return r
		default:
			return &vFaultReader{data: []byte(text), failAt: len(text) + 1, chunks: c.Chunks, eofWithLast: c.EOFWithData}
		}
	}
	stallRelease := make(chan struct{})
	defer close(stallRelease) // whatever happened, let a producer that is still reading come to an end
	missing := filepath.Join(vScratchDir(), "c18-does-not-exist.yaml")
	filePath := ""
	if c.Input == "file" || c.Input == "fifo" {
		filePath = vWriteFile("c18-input.yaml", text)
	}
	if c.Input == "dash-file" || c.Input == "dash-missing" {
		// a file whose name is "-" (or no such file): ParseFile takes names literally, like ParseFileCallback
		dir := filepath.Join(vScratchDir(), "c18-dash-"+c.Input)
		_ = os.RemoveAll(dir)
		if err := os.MkdirAll(dir, 0o755); err != nil {
			vFault("mkdir: %v", err)
		}
		if c.Input == "dash-file" {
			if err := os.WriteFile(filepath.Join(dir, "-"), []byte(text), 0o644); err != nil {
				vFault("write: %v", err)
			}
		}
		old, _ := os.Getwd()
		if err := os.Chdir(dir); err != nil {
			vFault("chdir: %v", err)
		}
		defer os.Chdir(old)
	}
	oddName := ""
	if c.Input == "odd-name" {
		// a file named in a way that is not its cleaned path: ParseFile must open what ParseFileCallback opens
		dir := filepath.Join(vScratchDir(), "c18-odd")
		_ = os.RemoveAll(dir)
		if err := os.MkdirAll(filepath.Join(dir, "other", "sub"), 0o755); err != nil {
			vFault("mkdir: %v", err)
		}
		if err := os.WriteFile(filepath.Join(dir, "f.yaml"), []byte(text), 0o644); err != nil {
			vFault("write: %v", err)
		}
		if err := os.WriteFile(filepath.Join(dir, "other", "f.yaml"), []byte("the other file:\n  x: 1\n"), 0o644); err != nil {
			vFault("write: %v", err)
		}
		if err := os.Symlink(filepath.Join(dir, "other", "sub"), filepath.Join(dir, "link")); err != nil {
			vFault("symlink: %v", err)
		}
		oddName = []string{dir + "/nodir/../f.yaml", dir + "/f.yaml/", "", dir + "/link/../f.yaml", dir + "//f.yaml", dir + "/./f.yaml", dir + "/other/../f.yaml"}[c.NameForm%7]
		if c.NameForm >= 7 {
			// a name that does not exist although it looks like one that does (white space at an edge): no such file
			oddName = []string{dir + "/f.yaml ", " " + dir + "/f.yaml", dir + "/f.yaml\n", dir + "/missing.yaml ", "\t" + dir + "/other/f.yaml"}[(c.NameForm-7)%5]
		}
		ctx.Labelf("odd-name-form=%d", c.NameForm%12)
	}
	closedPath := ""
	if c.Input == "closed-file" {
		closedPath = vWriteFile("c18-closed.yaml", text)
	}
	fifoPath := filepath.Join(vScratchDir(), "c18-fifo")
	if c.Input == "fifo" {
		_ = os.Remove(fifoPath)
		if err := syscall.Mkfifo(fifoPath, 0o644); err != nil {
			vFault("mkfifo: %v", err)
		}
	}
	// expectation: the callback parser, stopping at its first error
	var want []c18Event
	{
		var recs []vGotRec
		var err error
		switch c.Input {
		case "missing-file":
			err = parser.ParseFileCallback(missing, cfg, func(n *shared.ParserNode, e error) (bool, error) { return e != nil, e })
		case "dash-file", "dash-missing":
			err = parser.ParseFileCallback("-", cfg, func(n *shared.ParserNode, e error) (bool, error) {
				if e != nil {
					return true, e
				}
				recs = append(recs, vGotFromNode(n))
				return false, nil
			})
		case "closed-file":
			f, e := os.Open(closedPath)
			if e != nil {
				vFault("open: %v", e)
			}
			f.Close()
			err = parser.ParseStreamCallback(f, cfg, func(n *shared.ParserNode, e error) (bool, error) {
				if e != nil {
					return true, e
				}
				recs = append(recs, vGotFromNode(n))
				return false, nil
			})
		case "odd-name":
			err = parser.ParseFileCallback(oddName, cfg, func(n *shared.ParserNode, e error) (bool, error) {
				if e != nil {
					return true, e
				}
				recs = append(recs, vGotFromNode(n))
				return false, nil
			})
		case "file", "fifo": // the expectation for a named pipe is what the same content gives in a regular file
			err = parser.ParseFileCallback(filePath, cfg, func(n *shared.ParserNode, e error) (bool, error) {
				if e != nil {
					return true, e
				}
				recs = append(recs, vGotFromNode(n))
				return false, nil
			})
		default:
			err = parser.ParseStreamCallback(mkReader(), cfg, func(n *shared.ParserNode, e error) (bool, error) {
				if e != nil {
					return true, e
				}
				recs = append(recs, vGotFromNode(n))
				return false, nil
			})
		}
		for _, r := range recs {
			want = append(want, c18Event{Kind: "node", Rec: r})
		}
		if err != nil {
			want = append(want, c18Event{Kind: "error", Err: err.Error(), ErrVal: err})
		} else {
			want = append(want, c18Event{Kind: "done"})
		}
	}
	hasErr := want[len(want)-1].Kind == "error"
	ctx.NonTrivial(hasErr || len(want) >= 3)
	ctx.Label("policy:" + c.Policy)
	ctx.Label("input:" + c.Input)
	if hasErr {
		ctx.Label("with-error")
	}
	ctx.Labelf("procs=%d", c.Procs)

	old := runtime.GOMAXPROCS(c.Procs)
	defer runtime.GOMAXPROCS(old)

	p := parser.NewParser(cfg)
	// a Parser value used for several inputs one after the other: earlier streams must not influence later ones
	for w := 0; w < c.Warmup; w++ {
		wtext := "warm:\n  up: 1\n"
		if w == 0 {
			wtext = "warm:\n  broken\n  up: 1\n"
		}
		wdone := make(chan struct{})
		go func() { p.ParseStream(strings.NewReader(wtext)); close(wdone) }()
		tm := time.After(15 * time.Second)
	drain:
		for {
			select {
			case <-p.Nodes:
			case <-p.Errors:
			case <-p.Done:
				break drain
			case <-tm:
				vFault("C18: warm-up stream did not finish")
			}
		}
		select {
		case <-wdone:
		case <-time.After(15 * time.Second):
			vFault("C18: warm-up producer did not exit")
		}
	}
	if c.Warmup > 0 {
		ctx.Label("parser-reused")
	}
	if c.Input == "file" && c.SameStat {
		// the same path was parsed a moment ago when it held other text of the same length, and the file's times are the
		// same as then (cp -p, rsync -t, two writes inside one clock tick): the file's present content is what counts
		decoy := []byte(text)
		changed := false
		for i, b := range decoy {
			switch {
			case b >= '0' && b <= '8':
				decoy[i], changed = b+1, true
			case b == '9':
				decoy[i], changed = '0', true
			}
		}
		if changed {
			stamp := time.Date(2021, 5, 5, 12, 0, 0, 0, time.UTC)
			if err := os.WriteFile(filePath, decoy, 0o644); err != nil {
				vFault("write: %v", err)
			}
			_ = os.Chtimes(filePath, stamp, stamp)
			pw := parser.NewParser(cfg)
			wdone := make(chan struct{})
			go func() { pw.ParseFile(filePath); close(wdone) }()
			tm := time.After(15 * time.Second)
		drainw:
			for {
				select {
				case <-pw.Nodes:
				case <-pw.Errors:
				case <-pw.Done:
					break drainw
				case <-tm:
					vFault("C18: the earlier parse of the same path did not finish")
				}
			}
			select {
			case <-wdone:
			case <-time.After(15 * time.Second):
				vFault("C18: the earlier producer did not exit")
			}
			if err := os.WriteFile(filePath, []byte(text), 0o644); err != nil {
				vFault("write: %v", err)
			}
			_ = os.Chtimes(filePath, stamp, stamp)
			ctx.Label("same-path-same-size-same-times")
		}
	}
	if c.Input == "fifo" {
		go func() {
			f, err := os.OpenFile(fifoPath, os.O_WRONLY, 0)
			if err != nil {
				return
			}
			if c.FifoPauseMS > 0 {
				// a writer that pauses in the middle (the pipe stays open): the parser has to wait, however long it takes
				half := len(text) / 2
				_, _ = f.WriteString(text[:half])
				time.Sleep(time.Duration(c.FifoPauseMS) * time.Millisecond)
				_, _ = f.WriteString(text[half:])
			} else {
				_, _ = f.WriteString(text)
			}
			f.Close()
		}()
		defer func() { // unblock the writer if the parser never opened the pipe
			if f, err := os.OpenFile(fifoPath, os.O_RDONLY|syscall.O_NONBLOCK, 0); err == nil {
				f.Close()
			}
		}()
	}
	exited := make(chan struct{})
	go func() {
		defer close(exited)
		switch c.Input {
		case "missing-file":
			p.ParseFile(missing)
		case "dash-file", "dash-missing":
			p.ParseFile("-")
		case "odd-name":
			p.ParseFile(oddName)
		case "fifo":
			p.ParseFile(fifoPath)
		case "file":
			p.ParseFile(filePath)
		case "closed-file":
			f, err := os.Open(closedPath)
			if err != nil {
				vFault("open: %v", err)
			}
			f.Close()
			p.ParseStream(f)
		case "seekable":
			p.ParseStream(mkReader()) // handed over as it is, so that the parser sees the seekable type
		case "stalling-stream":
			p.ParseStream(&vStallReader{data: []byte(text), release: stallRelease})
		default:
			p.ParseStream(&vSlowReader{r: mkReader(), delays: c.ProdUS})
		}
	}()
	ctx.Run(1)
	// whatever happens below, let the producer finish afterwards so that no
	// goroutine of this case survives into the next one
	defer func() {
		deadline := time.After(10 * time.Second)
		for {
			select {
			case <-exited:
				return
			case <-p.Nodes:
			case <-p.Errors:
			case <-p.Done:
			case <-deadline:
				return
			}
		}
	}()
	var got []c18Event
	step := 0
	stall := time.NewTimer(15 * time.Second)
	defer stall.Stop()
	finished := false
	stalled := false
	for !finished && !stalled {
		if len(c.Yields) > 0 {
			for i := 0; i < c.Yields[step%len(c.Yields)]; i++ {
				runtime.Gosched()
			}
		}
		if len(c.SleepsUS) > 0 {
			if d := c.SleepsUS[step%len(c.SleepsUS)]; d > 0 {
				time.Sleep(time.Duration(d) * time.Microsecond)
			}
		}
		step++
		if c18Between != nil {
			if f := c18Between(); f != nil {
				return f
			}
		}
		if !stall.Stop() {
			select {
			case <-stall.C:
			default:
			}
		}
		stall.Reset(15 * time.Second)
		select {
		case n := <-p.Nodes:
			got = append(got, c18Event{Kind: "node", Rec: vGotFromNode(n)})
		case err := <-p.Errors:
			got = append(got, c18Event{Kind: "error", Err: err.Error(), ErrVal: err})
			if c.Policy == "documented" {
				finished = true
			}
		case <-p.Done:
			got = append(got, c18Event{Kind: "done"})
			finished = true
		case <-exited:
			// unbuffered channels: a producer that has returned has nothing pending
			stalled = true
		case <-stall.C:
			stalled = true
		}
		if len(got) > len(want)+50 {
			return vFailf("the consumer received %d values, far more than the %d the callback parser reports: %s", len(got), len(want), c18Fmt(got[:20]))
		}
	}
	if stalled {
		select {
		case <-exited:
			return vFailSig("C18/"+c.Input+"/no-done", "policy %s on %s: the producer goroutine has exited but never signalled completion; a consumer that keeps receiving until Done waits forever. Received so far: %s; expected %s", c.Policy, c.Input, c18Fmt(got), c18Fmt(want))
		default:
			dump := c18GoroutineDump()
			if c18ProducerParked(dump) {
				return vFailf("policy %s: nothing arrives for 15 s while the consumer is receiving, and the producer is parked in a channel send. Received: %s\n%s", c.Policy, c18Fmt(got), vTrunc(dump, 3000))
			}
			vFault("C18: consumer stalled for 15 s, producer still running (inconclusive)\n%s", vTrunc(dump, 2000))
		}
	}
	// the received sequence
	exp := want
	if c.Policy == "drain" && hasErr {
		exp = append(append([]c18Event{}, want...), c18Event{Kind: "done"})
	}
	if len(got) != len(exp) {
		sig := ""
		if c.Policy == "drain" && len(got) == len(exp)+1 && got[len(got)-2].Kind == "error" && got[len(got)-3].Kind == "error" {
			sig = "C18/error-delivered-twice"
		}
		return vFailSig(sig, "policy %s on %s: received %s, expected %s", c.Policy, c.Input, c18Fmt(got), c18Fmt(exp))
	}
	for i := range exp {
		g, w := got[i], exp[i]
		if g.Kind != w.Kind || g.Err != w.Err || g.Rec.Head != w.Rec.Head || strings.Join(g.Rec.Names, "\x00") != strings.Join(w.Rec.Names, "\x00") || fmt.Sprint(g.Rec.Values) != fmt.Sprint(w.Rec.Values) || fmt.Sprintf("%q", g.Rec.Notes) != fmt.Sprintf("%q", w.Rec.Notes) {
			return vFailf("policy %s on %s: value %d is %s, expected %s (full: %s vs %s)", c.Policy, c.Input, i, g, w, c18Fmt(got), c18Fmt(exp))
		}
		if g.ErrVal != nil && w.ErrVal != nil && !reflect.DeepEqual(g.ErrVal, w.ErrVal) {
			return vFailf("policy %s on %s: the error the consumer receives is not the error the callback parser reports, although both print %q: %#v vs %#v", c.Policy, c.Input, g.Err, g.ErrVal, w.ErrVal)
		}
	}
	if c.Policy == "drain" {
		select {
		case <-exited:
		case <-time.After(15 * time.Second):
			dump := c18GoroutineDump()
			if c18ProducerParked(dump) {
				return vFailf("after the consumer received Done the producer goroutine is still parked in a channel send:\n%s", vTrunc(dump, 3000))
			}
			vFault("C18: producer did not exit within 3 s after Done (inconclusive)\n%s", vTrunc(dump, 2000))
		}
	} else if !hasErr {
		// documented loop that ended with Done: the producer has nothing left to send
		select {
		case <-exited:
		case <-time.After(15 * time.Second):
			vFault("C18: producer did not exit within 15 s after Done (inconclusive)")
		}
	}
	return nil
}

func genC18(t *rapid.T) c18Case {
	lo := vLayoutOpts{EOL: []string{"", "\r\n", "mixed"}[rapid.IntRange(0, 2).Draw(t, "eol")]}
	c := c18Case{Policy: []string{"documented", "drain"}[rapid.IntRange(0, 1).Draw(t, "policy")],
		Procs: []int{1, 2, 16}[rapid.IntRange(0, 2).Draw(t, "procs")]}
	kind := rapid.IntRange(0, 9).Draw(t, "kind")
	var d vDoc
	switch {
	case kind == 0: // empty or comments only
		n := rapid.IntRange(0, 3).Draw(t, "ncomments")
		for i := 0; i < n; i++ {
			d.Pre = append(d.Pre, vGenFillerLine(t, lo, "filler"))
		}
		c.Input = "stream"
	default:
		pool := vGenNamePool(t, true, 3, "pool")
		nrec := rapid.IntRange(1, 6).Draw(t, "nrec")
		for i := 0; i < nrec; i++ {
			var lines []vLine
			for k := rapid.IntRange(0, 6).Draw(t, "nent"); k > 0; k-- {
				lines = append(lines, vLine{Kind: vkEntry, Name: pool[rapid.IntRange(0, 2).Draw(t, "ei")], Num: vGenNumDecimal(t, "num"), L: vGenEntryLayout(t, lo, "el")})
			}
			d.Recs = append(d.Recs, vRec{Head: vGenName(t, true, "head"), HL: vGenHeadLayout(t, lo, "hl"), Lines: lines})
		}
		if rapid.IntRange(0, 11).Draw(t, "widerec") == 0 {
			// one record with hundreds of entries (and a note): longer than any slice a parser may grow in steps
			ne := []int{171, 200, 213, 214, 342, 400, 554, 683, 900, 1007, 1136, 1500, 2000, 5000}[rapid.IntRange(0, 13).Draw(t, "wideren")]
			plain := vLayout{Indent: "  ", Sep: ": ", EOL: "\n"}
			var lines []vLine
			for k := 0; k < ne; k++ {
				lines = append(lines, vLine{Kind: vkEntry, Name: fmt.Sprintf("w%d", k), Num: fmt.Sprint(k % 97), L: plain})
			}
			at := rapid.IntRange(0, ne).Draw(t, "widerenote")
			note := vLine{Kind: vkNote, Name: "place", Text: "home", L: vLayout{Indent: "  ", EOL: "\n"}}
			lines = append(lines[:at], append([]vLine{note}, lines[at:]...)...)
			d.Recs[rapid.IntRange(0, len(d.Recs)-1).Draw(t, "widerei")].Lines = lines
		}
		vDecorate(t, &d, lo, true, "deco")
		switch {
		case kind <= 4:
			c.Input = "stream"
			if kind >= 2 { // one or several malformed lines
				c09Plant(t, &d, rapid.IntRange(1, 3).Draw(t, "k"), pool, "plant")
				if rapid.IntRange(0, 2).Draw(t, "stalling") == 0 {
					// the stream does not end after the malformed line (its writer is still alive); one more record follows,
					// so that the malformed line is complete in what has been read
					c.Input = "stalling-stream"
					d.Recs = append(d.Recs, vRec{Head: "tail~", HL: vLayout{EOL: "\n"}, Lines: []vLine{{Kind: vkEntry, Name: "x", Num: "1", L: vLayout{Indent: "  ", Sep: ": ", EOL: "\n"}}}})
					d.NoFinalNL = false
				}
			}
		case kind <= 6:
			c.Input = []string{"failing-reader", "failing-reader", "failing-reader", "seekable", "closed-file"}[rapid.IntRange(0, 4).Draw(t, "readerkind")]
			c.FailAt = rapid.IntRange(0, 1000).Draw(t, "failat")
			c.Err = rapid.IntRange(0, len(c10Errors)-1).Draw(t, "err")
			c.Skip = rapid.IntRange(0, 1000).Draw(t, "skip")
		case kind == 7:
			c.Input = "missing-file"
		default:
			c.Input = []string{"file", "file", "fifo", "dash-file", "dash-missing", "odd-name", "odd-name"}[rapid.IntRange(0, 6).Draw(t, "filekind")]
			c.NameForm = rapid.IntRange(0, 11).Draw(t, "nameform")
			if rapid.Bool().Draw(t, "bad") {
				c09Plant(t, &d, 1, pool, "plant")
			}
		}
	}
	c.Doc = d
	c.Comment = []int{0, 0, 0, 1, 2}[rapid.IntRange(0, 4).Draw(t, "config")]
	c.Warmup = []int{0, 0, 0, 1, 2}[rapid.IntRange(0, 4).Draw(t, "warmup")]
	c.BOM = rapid.IntRange(0, 9).Draw(t, "bom") == 0
	c.Neighbour = []int{0, 0, 0, 0, 1, 1, 2, 3}[rapid.IntRange(0, 7).Draw(t, "neighbour")]
	c.EOFWithData = rapid.IntRange(0, 2).Draw(t, "eofwithdata") == 0
	c.SameStat = rapid.Bool().Draw(t, "samestat")
	c.Transient = rapid.IntRange(0, 2).Draw(t, "transient") == 0
	if rapid.IntRange(0, 9).Draw(t, "longline") == 0 {
		c.LongLine = []int{4096, 8192, 65535, 65536, 70000, 100000, 140000}[rapid.IntRange(0, 6).Draw(t, "longlinen")]
	}
	c.Yields = rapid.SliceOfN(rapid.IntRange(0, 3), 0, 4).Draw(t, "yields")
	c.SleepsUS = rapid.SliceOfN(rapid.SampledFrom([]int{0, 0, 0, 1, 20, 200}), 0, 4).Draw(t, "sleeps")
	c.ProdUS = rapid.SliceOfN(rapid.SampledFrom([]int{0, 0, 1, 50, 200}), 0, 4).Draw(t, "produs")
	if rapid.Bool().Draw(t, "chunked") {
		c.Chunks = rapid.SliceOfN(rapid.IntRange(1, 40), 1, 4).Draw(t, "chunks")
	}
	return c
}

// vSynthReader produces head, then comment lines up to pad bytes, then tail, without holding them in memory.
type vSynthReader struct {
	head, tail string
	pad        int64
	line       []byte
	pos        int64
}

func (r *vSynthReader) Read(p []byte) (int, error) {
	total := int64(len(r.head)) + r.pad + int64(len(r.tail))
	if r.pos >= total {
		return 0, io.EOF
	}
	n := 0
	for n < len(p) && r.pos < total {
		switch {
		case r.pos < int64(len(r.head)):
			k := copy(p[n:], r.head[r.pos:])
			n, r.pos = n+k, r.pos+int64(k)
		case r.pos < int64(len(r.head))+r.pad:
			off := r.pos - int64(len(r.head))
			rest := int64(len(r.head)) + r.pad - r.pos
			chunk := r.line[off%int64(len(r.line)):]
			if int64(len(chunk)) > rest {
				chunk = chunk[:rest]
			}
			k := copy(p[n:], chunk)
			n, r.pos = n+k, r.pos+int64(k)
		default:
			k := copy(p[n:], r.tail[r.pos-int64(len(r.head))-r.pad:])
			n, r.pos = n+k, r.pos+int64(k)
		}
	}
	return n, nil
}

// checkC18Huge: a stream of c.LongLine MiB (+1 MiB) of comment lines between two records, never held in memory.
func checkC18Huge(c c18Case, ctx *vCtx) *vFailure {
	line := []byte("# " + strings.Repeat("p", 4093) + "\n") // 4096 bytes, so the padding ends on a line end
	mk := func() io.Reader {
		return &vSynthReader{head: "first day:\n  a: 1\n", tail: "second day:\n  b: 2\n  c: 3\nthird day:\n  d: 4\n", pad: (int64(c.LongLine) + 1) << 20, line: line}
	}
	ctx.Labelf("huge=%dMiB", c.LongLine)
	ctx.NonTrivial(true)
	ctx.Run(1)
	var want []c18Event
	err := parser.ParseStreamCallback(mk(), parser.NewDefaultConfig(), func(n *shared.ParserNode, e error) (bool, error) {
		if e != nil {
			return true, e
		}
		want = append(want, c18Event{Kind: "node", Rec: vGotFromNode(n)})
		return false, nil
	})
	if err != nil {
		want = append(want, c18Event{Kind: "error", Err: err.Error()})
	} else {
		want = append(want, c18Event{Kind: "done"})
	}
	if len(want) != 4 {
		return vFailf("the callback parser reports %s for a stream of %d MiB of comment lines between its first and its second record", c18Fmt(want), c.LongLine+1)
	}
	p := parser.NewParser(parser.NewDefaultConfig())
	exited := make(chan struct{})
	go func() { defer close(exited); p.ParseStream(mk()) }()
	var got []c18Event
	limit := time.After(20 * time.Minute)
	for fin := false; !fin; {
		select {
		case n := <-p.Nodes:
			got = append(got, c18Event{Kind: "node", Rec: vGotFromNode(n)})
		case err := <-p.Errors:
			got = append(got, c18Event{Kind: "error", Err: err.Error()})
			fin = c.Policy == "documented"
		case <-p.Done:
			got = append(got, c18Event{Kind: "done"})
			fin = true
		case <-limit:
			vFault("C18: the %d MiB stream was not delivered within 20 minutes (inconclusive)", c.LongLine+1)
		}
		if len(got) > 50 {
			break
		}
	}
	go func() { // let a producer that still has something to say come to an end
		for {
			select {
			case <-exited:
				return
			case <-p.Nodes:
			case <-p.Errors:
			case <-p.Done:
			}
		}
	}()
	if c18Fmt(got) != c18Fmt(want) {
		return vFailf("policy %s on a stream of %d MiB: received %s, the callback parser reports %s", c.Policy, c.LongLine+1, c18Fmt(got), c18Fmt(want))
	}
	return nil
}

// checkC18Merge: K files delivered by K Parsers at the same time, to one consumer that first takes the head of every
// stream (as a merge of journals does) and then drains them one after the other. Every stream must deliver what the
// callback parser reports for its file, however many are open at once.
func checkC18Merge(c c18Case, ctx *vCtx) *vFailure {
	k := c.Warmup
	dir := filepath.Join(vScratchDir(), "c18-merge")
	_ = os.RemoveAll(dir)
	if err := os.MkdirAll(dir, 0o755); err != nil {
		vFault("mkdir: %v", err)
	}
	ctx.Labelf("streams=%d", k)
	ctx.NonTrivial(true)
	ctx.Run(k)
	type stream struct {
		p      *parser.Parser
		want   string
		got    []c18Event
		exited chan struct{}
	}
	streams := make([]*stream, k)
	for i := range streams {
		text := fmt.Sprintf("journal %d first:\n  a: %d\n  b: 2\njournal %d second:\n  c: 3\njournal %d third:\n  d: 4\n", i, i, i, i)
		path := filepath.Join(dir, fmt.Sprintf("j%d.yaml", i))
		if err := os.WriteFile(path, []byte(text), 0o644); err != nil {
			vFault("write: %v", err)
		}
		st := &stream{p: func() *parser.Parser { p := parser.NewParser(parser.NewDefaultConfig()); return &p }(), want: c18Fmt(c18Callback(text)), exited: make(chan struct{})}
		streams[i] = st
		go func() { defer close(st.exited); st.p.ParseFile(path) }()
	}
	defer func() { // let every producer come to an end
		for _, st := range streams {
			st := st
			go func() {
				for {
					select {
					case <-st.exited:
						return
					case <-st.p.Nodes:
					case <-st.p.Errors:
					case <-st.p.Done:
					}
				}
			}()
		}
	}()
	recv := func(i int, st *stream) (done bool, f *vFailure) {
		select {
		case n := <-st.p.Nodes:
			st.got = append(st.got, c18Event{Kind: "node", Rec: vGotFromNode(n)})
		case err := <-st.p.Errors:
			st.got = append(st.got, c18Event{Kind: "error", Err: err.Error()})
		case <-st.p.Done:
			st.got = append(st.got, c18Event{Kind: "done"})
			return true, nil
		case <-time.After(20 * time.Second):
			return true, vFailf("%d files are delivered at the same time: stream %d delivers nothing for 20 s (received so far: %s); on its own the file gives %s", k, i, c18Fmt(st.got), st.want)
		}
		return false, nil
	}
	for i, st := range streams { // the head of every stream
		if _, f := recv(i, st); f != nil {
			return f
		}
	}
	for i, st := range streams { // then each stream to its end
		for n := 0; n < 20; n++ {
			done, f := recv(i, st)
			if f != nil {
				return f
			}
			if done {
				break
			}
		}
		if got := c18Fmt(st.got); got != st.want {
			return vFailf("%d files are delivered at the same time: stream %d delivered %s; on its own the file gives %s", k, i, got, st.want)
		}
	}
	return nil
}

// c18.otheruser: both parsers in a process that is not the owner of the file (and not root): a helper run of this test
// binary under an unused user id parses a world-readable file that belongs to root and prints what each parser reported.

func TestVerifC18HelperOtherUser(t *testing.T) {
	path := os.Getenv("VERIF_C18_HELPER_FILE")
	if path == "" {
		t.Skip("helper of c18.otheruser")
	}
	var cb []c18Event
	err := parser.ParseFileCallback(path, parser.NewDefaultConfig(), func(n *shared.ParserNode, e error) (bool, error) {
		if e != nil {
			return true, e
		}
		cb = append(cb, c18Event{Kind: "node", Rec: vGotFromNode(n)})
		return false, nil
	})
	if err != nil {
		cb = append(cb, c18Event{Kind: "error", Err: err.Error()})
	} else {
		cb = append(cb, c18Event{Kind: "done"})
	}
	p := parser.NewParser(parser.NewDefaultConfig())
	go p.ParseFile(path)
	var ch []c18Event
	for fin := false; !fin; {
		select {
		case n := <-p.Nodes:
			ch = append(ch, c18Event{Kind: "node", Rec: vGotFromNode(n)})
		case e := <-p.Errors:
			ch = append(ch, c18Event{Kind: "error", Err: e.Error()})
		case <-p.Done:
			ch = append(ch, c18Event{Kind: "done"})
			fin = true
		case <-time.After(20 * time.Second):
			ch = append(ch, c18Event{Kind: "error", Err: "nothing arrives for 20 s"})
			fin = true
		}
	}
	fmt.Printf("C18HELPER uid=%d callback=%s\nC18HELPER uid=%d channel=%s\n", os.Getuid(), c18Fmt(cb), os.Getuid(), c18Fmt(ch))
}

func checkC18OtherUser(c c18Case, ctx *vCtx) *vFailure {
	ctx.NonTrivial(true)
	ctx.Run(1)
	dir, err := os.MkdirTemp("", "verif-c18-otheruser-")
	if err != nil {
		vFault("mkdtemp: %v", err)
	}
	defer os.RemoveAll(dir)
	_ = os.Chmod(dir, 0o755)
	file := filepath.Join(dir, "journal.yaml")
	if err := os.WriteFile(file, []byte("first day:\n  a: 1\n  # note\nsecond day:\n  b: 2\n"), 0o644); err != nil {
		vFault("write: %v", err)
	}
	self, err := os.ReadFile(os.Args[0])
	if err != nil {
		vFault("read test binary: %v", err)
	}
	tb := filepath.Join(dir, "tb")
	if err := os.WriteFile(tb, self, 0o755); err != nil {
		vFault("copy test binary: %v", err)
	}
	cmd := exec.Command(tb, "-test.run", "^TestVerifC18HelperOtherUser$", "-test.v")
	cmd.Dir = dir
	cmd.Env = []string{"PATH=/usr/bin:/bin", "HOME=" + dir, "TZ=UTC", "VERIF_C18_HELPER_FILE=" + file, "VERIF_OUT=" + dir, "VERIF_PROPERTY=C18"}
	cmd.SysProcAttr = &syscall.SysProcAttr{Credential: &syscall.Credential{Uid: uint32(c.Warmup), Gid: uint32(c.Warmup)}}
	out, rerr := cmd.CombinedOutput()
	var cb, ch string
	for _, ln := range strings.Split(string(out), "\n") {
		if i := strings.Index(ln, " callback="); strings.HasPrefix(ln, "C18HELPER") && i > 0 {
			cb = ln[i+len(" callback="):]
		}
		if i := strings.Index(ln, " channel="); strings.HasPrefix(ln, "C18HELPER") && i > 0 {
			ch = ln[i+len(" channel="):]
		}
	}
	if cb == "" || ch == "" {
		// a sandbox that does not let root start a process under another user id: nothing to compare
		ctx.Excluded(fmt.Sprintf("the helper process under uid %d could not be run (%v)", c.Warmup, rerr))
		return nil
	}
	ctx.Labelf("uid=%d", c.Warmup)
	if cb != ch {
		return vFailf("in a process of user id %d (not the owner of the world-readable file, not root) the channel parser delivers %s, the callback parser reports %s", c.Warmup, ch, cb)
	}
	if !strings.Contains(cb, "second day") {
		return vFailf("in a process of user id %d the callback parser reports %s for a world-readable file of two records", c.Warmup, cb)
	}
	return nil
}

func TestVerifC18OtherUser(t *testing.T) {
	if os.Getuid() != 0 {
		t.Skip("needs root to start a process under another user id")
	}
	space := []c18Case{{Input: "otheruser", Policy: "drain", Procs: 2, Warmup: 54321}}
	vEnum(t, "C18", "c18.otheruser",
		"both parsers in a helper process under an unused user id (54321) on a world-readable file that belongs to root: the channel parser must deliver what the callback parser reports",
		"1 case", len(space), func(i int) c18Case { return space[i] }, checkC18)
}

func TestVerifC18Merge(t *testing.T) {
	ks := []int{2, 8, 9, 17, 70}
	if vThorough() {
		ks = append(ks, 33, 129, 300, 1100)
	}
	var space []c18Case
	for _, k := range ks {
		space = append(space, c18Case{Input: "merge", Policy: "drain", Procs: 2, Warmup: k})
	}
	vEnum(t, "C18", "c18.merge",
		"2, 8, 9, 17, 70 (thorough: up to 1100) files delivered by as many Parsers at the same time to a consumer that first takes the head of every stream and then drains them one after the other: each stream must deliver what the callback parser reports for its file",
		fmt.Sprintf("%d cases", len(space)), len(space), func(i int) c18Case { return space[i] }, checkC18)
}

func TestVerifC18Huge(t *testing.T) {
	space := []c18Case{{Input: "huge", Policy: "drain", Procs: 2, LongLine: 1024}}
	if vThorough() {
		space = append(space, c18Case{Input: "huge", Policy: "documented", Procs: 2, LongLine: 2048}, c18Case{Input: "huge", Policy: "drain", Procs: 2, LongLine: 4096}, c18Case{Input: "huge", Policy: "drain", Procs: 2, LongLine: 8192})
	}
	vEnum(t, "C18", "c18.huge",
		"a stream of 1 GiB + 1 MiB (thorough: also 2, 4 and 8 GiB) of comment lines between the first and the second of three records, produced on the fly: the channel parser must deliver what the callback parser reports (three records, then Done)",
		fmt.Sprintf("%d cases", len(space)), len(space), func(i int) c18Case { return space[i] }, checkC18)
}

func init() {
	vRegister("C18", "c18.huge", checkC18)
	vRegister("C18", "c18.merge", checkC18)
	vRegister("C18", "c18.otheruser", checkC18)
	vRegister("C18", "c18.schedules", checkC18)
	vRegister("C18", "c18.slowfifo", checkC18)
}

func TestVerifC18SlowFifo(t *testing.T) {
	plain := vLayout{Indent: "  ", Sep: ": ", EOL: "\n"}
	var d vDoc
	for i := 0; i < 6; i++ {
		d.Recs = append(d.Recs, vRec{Head: fmt.Sprintf("rec %d", i), HL: vLayout{EOL: "\n"}, Lines: []vLine{{Kind: vkEntry, Name: "x", Num: fmt.Sprint(i), L: plain}, {Kind: vkEntry, Name: "y", Num: "2", L: plain}}})
	}
	space := []c18Case{
		{Doc: d, Input: "fifo", Policy: "documented", Procs: 2, FifoPauseMS: 5600},
		{Doc: d, Input: "fifo", Policy: "drain", Procs: 2, FifoPauseMS: 5600},
	}
	if vThorough() {
		space = append(space, c18Case{Doc: d, Input: "fifo", Policy: "drain", Procs: 1, FifoPauseMS: 11000})
	}
	vEnum(t, "C18", "c18.slowfifo",
		"a named pipe whose writer pauses 5.6 s (thorough: also 11 s) after half of the text and then goes on: both consumer policies must receive every record and Done, as the callback parser does on the same text",
		fmt.Sprintf("%d cases", len(space)), len(space), func(i int) c18Case { return space[i] }, checkC18)
}

func TestVerifC18Schedules(t *testing.T) {
	vRapid(t, "C18", "c18.schedules",
		"parser configurations {default, zero Config, ';' comments} x inputs {valid files, files with 1-3 malformed lines, files with a line of 4 KiB..140 KiB, empty / comment-only, reader failing at a drawn offset with one of 9 error values, seekable reader already partly consumed, file closed before parsing, missing file, real file and named pipe through ParseFile; the Parser value fresh or reused after other streams} x consumer policy {documented loop: stop at first error or Done; drain: keep receiving until Done} x drawn schedule (Gosched calls and 0-200 us sleeps before each receive, producer slowed by a reader with drawn delays and chunking, GOMAXPROCS in {1,2,16}) x other parsing in the same process meanwhile {none, the consumer calls the callback parser on another text between receives, a second Parser delivers another stream at the same time, a goroutine keeps running the callback parser - each of them must see its own stream only}, built with the race detector; differential against the callback parser stopping at its first error; after a drain the producer goroutine must have exited; non-trivial = the input has an error or >=2 records",
		vBudget(4800, 160000), genC18, checkC18)
}
