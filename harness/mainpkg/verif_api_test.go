//go:build go1.21 && verifapi

package main

// The exported command functions of the internal packages (the same ones the
// repository's own e2e test calls), wrapped behind one signature so that a
// failing reader (C10) or a failing writer (C17) can be injected at an exact byte.

import (
	"io"
	"os"
	"time"

	"github.com/aquilax/hranoprovod-cli/cmd/hranoprovod-cli/v3/internal/balance"
	"github.com/aquilax/hranoprovod-cli/cmd/hranoprovod-cli/v3/internal/csv"
	"github.com/aquilax/hranoprovod-cli/cmd/hranoprovod-cli/v3/internal/lint"
	"github.com/aquilax/hranoprovod-cli/cmd/hranoprovod-cli/v3/internal/print"
	"github.com/aquilax/hranoprovod-cli/cmd/hranoprovod-cli/v3/internal/register"
	"github.com/aquilax/hranoprovod-cli/cmd/hranoprovod-cli/v3/internal/report"
	"github.com/aquilax/hranoprovod-cli/cmd/hranoprovod-cli/v3/internal/reporter"
	"github.com/aquilax/hranoprovod-cli/cmd/hranoprovod-cli/v3/internal/stats"
	"github.com/aquilax/hranoprovod-cli/cmd/hranoprovod-cli/v3/internal/summary"
	"github.com/aquilax/hranoprovod-cli/v3/filter"
	"github.com/aquilax/hranoprovod-cli/v3/parser"
	"github.com/aquilax/hranoprovod-cli/v3/resolver"
)

// This file is the only one that names unexported-by-documentation internals (the configuration structs of the internal
// command packages). It is compiled under the build tag verifapi; when a refactoring changes those structs so that the
// file no longer compiles, the driver builds without the tag (verif_apistub_test.go) and only the function-level fault
// injection of C10/C17 is lost: everything observed through the command line keeps running.

const vAPIAvailable = true

func vRepCfg(out io.Writer, mod func(*reporter.Config)) reporter.Config {
	c := reporter.NewDefaultConfig()
	c.Output = out
	c.Color = false
	if mod != nil {
		mod(&c)
	}
	return c
}

const vDF = parser.DefaultDateFormat

func vRegCmd(name string, mod func(*reporter.Config, string)) vAPICmd {
	return vAPICmd{name, true, true, func(l, d io.Reader, o io.Writer, x string) error {
		return register.Register(l, d, register.RegisterConfig{DateFormat: vDF, ParserConfig: parser.NewDefaultConfig(), ResolverConfig: resolver.NewDefaultConfig(),
			ReporterConfig: vRepCfg(o, func(c *reporter.Config) {
				if mod != nil {
					mod(c, x)
				}
			}), FilterConfig: filter.NewDefaultConfig()})
	}}
}

func vBalCmd(name string, mod func(*reporter.Config, string)) vAPICmd {
	return vAPICmd{name, true, true, func(l, d io.Reader, o io.Writer, x string) error {
		return balance.Balance(l, d, balance.BalanceConfig{DateFormat: vDF, ParserConfig: parser.NewDefaultConfig(), ResolverConfig: resolver.NewDefaultConfig(),
			ReporterConfig: vRepCfg(o, func(c *reporter.Config) {
				if mod != nil {
					mod(c, x)
				}
			}), FilterConfig: filter.NewDefaultConfig()})
	}}
}

var vAPICmds = []vAPICmd{
	vRegCmd("reg", nil),
	vRegCmd("reg-color", func(c *reporter.Config, x string) { c.Color = true }),
	vRegCmd("reg-left-aligned", func(c *reporter.Config, x string) { c.InternalTemplateName = "left-aligned" }),
	vRegCmd("reg-old", func(c *reporter.Config, x string) { c.UseOldRegReporter = true }),
	vRegCmd("reg-single-element", func(c *reporter.Config, x string) { c.SingleElement = x }),
	vRegCmd("reg-single-element-csv", func(c *reporter.Config, x string) { c.SingleElement = x; c.CSV = true }),
	vRegCmd("reg-shorten", func(c *reporter.Config, x string) { c.ShortenStrings = true }),
	vRegCmd("reg-old-shorten", func(c *reporter.Config, x string) { c.ShortenStrings = true; c.UseOldRegReporter = true }),
	vRegCmd("reg-totals-only", func(c *reporter.Config, x string) { c.TotalsOnly = true }),
	vRegCmd("reg-no-totals", func(c *reporter.Config, x string) { c.Totals = false }),
	vRegCmd("reg-element-by-food", func(c *reporter.Config, x string) { c.SingleElement = x; c.ElementGroupByFood = true }),
	vRegCmd("reg-single-food", func(c *reporter.Config, x string) { c.SingleFood = "." }),
	vBalCmd("bal", nil),
	vBalCmd("bal-collapse", func(c *reporter.Config, x string) { c.Collapse = true }),
	vBalCmd("bal-collapse-last", func(c *reporter.Config, x string) { c.CollapseLast = true }),
	vBalCmd("bal-single", func(c *reporter.Config, x string) { c.SingleElement = x }),
	{"csv-log", true, false, func(l, d io.Reader, o io.Writer, x string) error {
		return csv.CSVLog(l, csv.CSVLogConfig{DateFormat: vDF, ParserConfig: parser.NewDefaultConfig(), FilterConfig: filter.NewDefaultConfig(),
			ReporterConfig: csv.NewCSVConfig(reporter.NewCommonConfig(o, false))})
	}},
	{"csv-database", false, true, func(l, d io.Reader, o io.Writer, x string) error {
		return csv.CSVDatabase(d, csv.CSVDatabaseConfig{ParserConfig: parser.NewDefaultConfig(), ReporterConfig: vRepCfg(o, nil)})
	}},
	{"csv-database-resolved", false, true, func(l, d io.Reader, o io.Writer, x string) error {
		return csv.CSVDatabaseResolved(d, csv.CSVDatabaseResolvedConfig{ParserConfig: parser.NewDefaultConfig(), ReporterConfig: vRepCfg(o, nil), ResolverConfig: resolver.NewDefaultConfig()})
	}},
	{"print", true, false, func(l, d io.Reader, o io.Writer, x string) error {
		return print.Print(l, print.PrintConfig{DateFormat: vDF, ParserConfig: parser.NewDefaultConfig(), ReporterConfig: vRepCfg(o, nil), FilterConfig: filter.NewDefaultConfig()})
	}},
	{"summary", true, true, func(l, d io.Reader, o io.Writer, x string) error {
		return summary.Summary(l, d, summary.SummaryConfig{DateFormat: vDF, ParserConfig: parser.NewDefaultConfig(), ResolverConfig: resolver.NewDefaultConfig(), ReporterConfig: vRepCfg(o, nil), FilterConfig: filter.NewDefaultConfig()})
	}},
	{"report-totals", true, true, func(l, d io.Reader, o io.Writer, x string) error {
		return report.ReportTotals(l, d, report.ReportTotalsConfig{DateFormat: vDF, ParserConfig: parser.NewDefaultConfig(), ResolverConfig: resolver.NewDefaultConfig(), ReporterConfig: vRepCfg(o, nil), FilterConfig: filter.NewDefaultConfig()})
	}},
	{"report-quantity", true, false, func(l, d io.Reader, o io.Writer, x string) error {
		return report.ReportQuantity(l, report.ReportQuantityConfig{DateFormat: vDF, ParserConfig: parser.NewDefaultConfig(), ReporterConfig: vRepCfg(o, nil), FilterConfig: filter.NewDefaultConfig()})
	}},
	{"report-unresolved", true, true, func(l, d io.Reader, o io.Writer, x string) error {
		return report.ReportUnresolved(l, d, report.ReportUnresolvedConfig{DateFormat: vDF, ParserConfig: parser.NewDefaultConfig(), ResolverConfig: resolver.NewDefaultConfig(), ReporterConfig: vRepCfg(o, nil), FilterConfig: filter.NewDefaultConfig()})
	}},
	{"report-element-total", false, true, func(l, d io.Reader, o io.Writer, x string) error {
		return report.ReportElement(d, report.ReportElementConfig{ElementName: x, ParserConfig: parser.NewDefaultConfig(), ResolverConfig: resolver.NewDefaultConfig(), ReporterConfig: vRepCfg(o, nil)})
	}},
	{"lint-log", true, false, func(l, d io.Reader, o io.Writer, x string) error {
		return lint.Lint(l, lint.LintConfig{ParserConfig: parser.NewDefaultConfig(), ReporterConfig: vRepCfg(o, nil)})
	}},
	{"lint-book", false, true, func(l, d io.Reader, o io.Writer, x string) error {
		return lint.Lint(d, lint.LintConfig{ParserConfig: parser.NewDefaultConfig(), ReporterConfig: vRepCfg(o, nil)})
	}},
}

// vStatsAPI runs stats.Stats (which takes file names) with an injectable output.
func vStatsAPI(logPath, dbPath string, out io.Writer) error {
	now, _ := time.Parse(vDF, vToday)
	return stats.Stats(logPath, dbPath, stats.StatsConfig{Now: now, ParserConfig: parser.NewDefaultConfig(), ReporterConfig: vRepCfg(out, nil)})
}

var _ = os.Stdout
