//go:build go1.21

package main

// C15 — presentation options never change the numbers.

import (
	"fmt"
	"math/big"
	"sort"
	"strings"
	"testing"
	"unicode/utf8"

	"pgregory.net/rapid"
)

type c15Case struct {
	S      vScenario `json:"s"`
	X      string    `json:"x"`
	Flags  []string  `json:"flags"`            // a drawn combination of presentation flags for reg
	Layout string    `json:"layout,omitempty"` // date format ("" = default); some contain a literal percent sign
}

// vColourMap strips escape codes and returns, per byte of the plain text, the
// colour that was active when it was written: 0 none, 31 red, 32 green.
func vColourMap(s string) (plain string, col []int, err error) {
	var sb strings.Builder
	cur := 0
	for i := 0; i < len(s); {
		if s[i] == 0x1b {
			m := vAnsiRe.FindStringIndex(s[i:])
			if m == nil || m[0] != 0 {
				return "", nil, fmt.Errorf("stray ESC at byte %d", i)
			}
			code := s[i+2 : i+m[1]-1]
			switch code {
			case "0":
				cur = 0
			case "31":
				cur = 31
			case "32":
				cur = 32
			default:
				return "", nil, fmt.Errorf("unexpected escape code %q", code)
			}
			i += m[1]
			continue
		}
		sb.WriteByte(s[i])
		col = append(col, cur)
		i++
	}
	if cur != 0 {
		return "", nil, fmt.Errorf("colour not reset at end of output")
	}
	return sb.String(), col, nil
}

// vColourRule checks one line: numeric fields (byte ranges of the plain line)
// are red when positive, green when negative, ±0.00 uncoloured or by hidden
// sign; everything else that is not blank is uncoloured.
func vColourRule(line string, col []int, fields [][2]int, exact bool) string {
	inField := make([]bool, len(line))
	for _, f := range fields {
		text := line[f[0]:f[1]]
		c := col[f[0]]
		for i := f[0]; i < f[1]; i++ {
			inField[i] = true
			if col[i] != c {
				return fmt.Sprintf("number %q is only partly coloured", text)
			}
		}
		v := vNum(text)
		switch {
		case v.Sign() > 0 && c != 31:
			return fmt.Sprintf("positive amount %s is not red (colour code %d)", text, c)
		case v.Sign() < 0 && c != 32:
			return fmt.Sprintf("negative amount %s is not green (colour code %d)", text, c)
		case v.Sign() == 0 && exact && c != 0:
			return fmt.Sprintf("zero amount %s is coloured (code %d)", text, c)
		case v.Sign() == 0 && strings.HasPrefix(text, "-") && c == 31:
			return fmt.Sprintf("amount %s is red", text)
		case v.Sign() == 0 && !strings.HasPrefix(text, "-") && c == 32:
			return fmt.Sprintf("amount %s is green", text)
		}
	}
	for i := 0; i < len(line); i++ {
		if !inField[i] && line[i] != ' ' && col[i] != 0 {
			return fmt.Sprintf("text outside the amounts is coloured at byte %d of %q", i, line)
		}
	}
	return ""
}

func vGroups(idx []int, groups ...int) [][2]int {
	var out [][2]int
	for _, g := range groups {
		out = append(out, [2]int{idx[2*g], idx[2*g+1]})
	}
	return out
}

// vCheckColours verifies the colour rule on a coloured register/summary output.
func vCheckColours(coloured string, format string, exact bool) string {
	plain, col, err := vColourMap(coloured)
	if err != nil {
		return err.Error()
	}
	off := 0
	inTotals := false
	for _, ln := range strings.SplitAfter(plain, "\n") {
		lcol := col[off : off+len(ln)]
		off += len(ln)
		ln = strings.TrimSuffix(ln, "\n")
		if ln == "" {
			continue
		}
		var fields [][2]int
		switch format {
		case "default", "old":
			switch {
			case !strings.HasPrefix(ln, "\t"):
				inTotals = false
			case vRegHeaderRe.MatchString(ln):
				inTotals = true
			case strings.HasPrefix(ln, "\t\t") && inTotals:
				if m := vRegTotalRe.FindStringSubmatchIndex(ln); m != nil {
					fields = vGroups(m, 2, 3, 4)
				}
			case strings.HasPrefix(ln, "\t\t"):
				if m := vRegIngRe.FindStringSubmatchIndex(ln); m != nil {
					fields = vGroups(m, 2)
				}
			default:
				if m := vRegFoodRe.FindStringSubmatchIndex(ln); m != nil {
					fields = vGroups(m, 2)
				}
			}
		case "left-aligned":
			switch {
			case vLAHeaderRe.MatchString(ln):
				inTotals = true
			case !strings.HasPrefix(ln, "  "):
				inTotals = false
			case inTotals:
				if m := vLATotalRe.FindStringSubmatchIndex(ln); m != nil {
					fields = vGroups(m, 1, 2, 3)
				}
			default:
				if m := vLAIngRe.FindStringSubmatchIndex(ln); m != nil {
					fields = vGroups(m, 1)
				} else if m := vLAFoodRe.FindStringSubmatchIndex(ln); m != nil {
					fields = vGroups(m, 1)
				}
			}
		case "summary":
			if m := vSumRowRe.FindStringSubmatchIndex(ln); m != nil && !(strings.HasSuffix(ln, " :")) {
				fields = vGroups(m, 1)
			}
		}
		if _, ok := c15TinyLine(ln); ok && format == "summary" {
			continue // (which of its figures the summary prints for an element is not this rule's business)
		}
		if sgn, ok := c15TinyLine(ln); ok && len(fields) > 0 {
			// a food logged with an amount that is not zero but prints as 0.00: the colour follows the amount, not its text
			want := []int{map[bool]int{true: 31, false: 32}[sgn > 0]}
			if len(fields) == 3 {
				want = []int{0, 0, want[0]}
				if sgn > 0 {
					want[0] = 31
				} else {
					want[1] = 32
				}
			}
			for i, f := range fields {
				if i < len(want) && f[1] > f[0] && lcol[f[1]-1] != want[i] {
					return fmt.Sprintf("amount %q of a food logged with a %s quantity below half a cent carries colour code %d, expected %d in line %q", ln[f[0]:f[1]], map[bool]string{true: "positive", false: "negative"}[sgn > 0], lcol[f[1]-1], want[i], ln)
				}
			}
			continue
		}
		if msg := vColourRule(ln, lcol, fields, exact); msg != "" {
			return msg + " in line " + fmt.Sprintf("%q", ln)
		}
	}
	return ""
}

// c15TinySign: the sign of the quantity of each "speck~" food of the case at hand (set by checkC15).
var c15TinySign = map[string]int{}

func c15TinyLine(ln string) (int, bool) {
	for nm, sgn := range c15TinySign {
		if strings.Contains(ln, nm) {
			return sgn, true
		}
	}
	return 0, false
}

var c15Templates = []struct {
	name string
	args []string
	la   bool
}{
	{"default", nil, false},
	{"left-aligned", []string{"--internal-template-name", "left-aligned"}, true},
	{"old", []string{"--use-old-reg-reporter"}, false},
}

func c15ReadReg(out string, la bool) []vRegDay {
	if la {
		return vReadRegisterLA(out)
	}
	return vReadRegister(out)
}

// vShortenOK: shown is the original, or prefix…suffix of it within width.
func vShortenOK(shown, orig string, width int) bool {
	if shown == orig {
		return utf8.RuneCountInString(orig) <= width
	}
	if utf8.RuneCountInString(shown) > width || utf8.RuneCountInString(orig) <= width {
		return false
	}
	// the name itself may contain the omission mark: any of its occurrences in the shown text may be the inserted one
	for from := 0; ; {
		k := strings.Index(shown[from:], "…")
		if k < 0 {
			return false
		}
		i := from + k
		p, s := shown[:i], shown[i+len("…"):]
		if strings.HasPrefix(orig, p) && strings.HasSuffix(orig, s) && len(p)+len(s) < len(orig) && (p != "" || s != "") {
			return true
		}
		from = i + len("…")
	}
}

func c15SplitDays(out string, dates map[string]bool) [][]string {
	var blocks [][]string
	for _, ln := range vLines(out) {
		if dates[ln] {
			blocks = append(blocks, []string{ln})
			continue
		}
		if len(blocks) == 0 {
			vViolate("C15: the register output begins with %q, which is not the heading of any day of the log under the date layout in force", ln)
		}
		blocks[len(blocks)-1] = append(blocks[len(blocks)-1], ln)
	}
	return blocks
}

func checkC15(c c15Case, ctx *vCtx) *vFailure {
	c15TinySign = map[string]int{}
	for _, r := range c.S.Log.Recs {
		for _, l := range r.Lines {
			if l.Kind == vkEntry && strings.HasPrefix(l.Name, "speck~") {
				c15TinySign[l.Name] = vRat(l.Num).Sign()
			}
		}
	}
	f := c.S.Write("c15")
	fileArgs := func(args ...string) []string {
		if c.Layout != "" {
			return append([]string{"--today", vFmtDay(9, c.Layout), "--date-format", c.Layout, "-d", f.Book, "-l", f.Log}, args...)
		}
		return f.Args(args...)
	}
	if c.Layout != "" {
		ctx.Label("date-format:" + c.Layout)
	}
	run := func(global []string, args ...string) string {
		r := vRunApp(vInvocation{Args: append(append([]string{}, global...), fileArgs(args...)...)})
		ctx.Run(1)
		if r.Failed {
			vViolate("C15: %v %v failed on valid input: %s", global, args, r)
		}
		return r.Stdout
	}
	nc := []string{"--no-color"}
	dates := map[string]bool{}
	hasLong, hasBothSigns, hasEmptyDay := false, false, false
	days, _ := c.S.ModelDays()
	for _, d := range days {
		dates[d.Head] = true
		if len(d.Foods) == 0 {
			hasEmptyDay = true
		}
		pos, neg := false, false
		for _, fd := range d.Foods {
			if utf8.RuneCountInString(fd.Name) > 27 {
				hasLong = true
			}
			for _, in := range fd.Ingrs {
				if utf8.RuneCountInString(in.Name) > 20 {
					hasLong = true
				}
				if in.V.V.Sign() > 0 {
					pos = true
				}
				if in.V.V.Sign() < 0 {
					neg = true
				}
			}
		}
		if pos && neg {
			hasBothSigns = true
		}
	}
	ctx.NonTrivial(hasBothSigns && hasLong)
	if hasLong {
		ctx.Label("long-name")
	}
	if hasEmptyDay {
		ctx.Label("empty-day")
	}
	if hasBothSigns {
		ctx.Label("both-signs")
	}

	var base []vRegDay
	for ti, tpl := range c15Templates {
		plain := run(nc, append([]string{"reg"}, tpl.args...)...)
		// (a) colour
		col := run(nil, append([]string{"reg"}, tpl.args...)...)
		if vStripAnsi(col) != plain {
			return vFailf("reg %v: coloured output differs from plain output after removing escape codes.\n--- coloured (stripped):\n%s\n--- plain:\n%s", tpl.args, vTrunc(vStripAnsi(col), 2000), vTrunc(plain, 2000))
		}
		if msg := vCheckColours(col, tpl.name, c.S.Exact); msg != "" {
			return vFailf("reg %v: colour rule violated: %s", tpl.args, msg)
		}
		sub := run(nil, append(append([]string{"reg"}, tpl.args...), "--no-color")...)
		if sub != plain {
			return vFailf("reg %v: --no-color on the sub-command gives different output than the global flag", tpl.args)
		}
		// (b) same record stream in all three reporters
		recs := c15ReadReg(plain, tpl.la)
		if ti == 0 {
			base = recs
		} else if msg := c15SameRecords(base, recs); msg != "" {
			return vFailf("reg %v shows different records than the default template: %s", tpl.args, msg)
		}
		// (c) shorten
		sh := c15ReadReg(run(nc, append(append([]string{"reg"}, tpl.args...), "--shorten")...), tpl.la)
		if msg := c15Shortened(recs, sh, len(tpl.args) == 0); msg != "" { // only the default template has shortening in its layout
			return vFailf("reg %v --shorten: %s", tpl.args, msg)
		}
		// (d) default = no-totals + totals-only interleaved per day
		nt := c15SplitDays(run(nc, append(append([]string{"reg"}, tpl.args...), "--no-totals")...), dates)
		to := c15SplitDays(run(nc, append(append([]string{"reg"}, tpl.args...), "--totals-only")...), dates)
		df := c15SplitDays(plain, dates)
		if len(nt) != len(df) || len(to) != len(df) {
			return vFailf("reg %v: %d days by default, %d with --no-totals, %d with --totals-only", tpl.args, len(df), len(nt), len(to))
		}
		for i := range df {
			want := append(append([]string{}, nt[i]...), to[i][1:]...)
			if to[i][0] != nt[i][0] || strings.Join(want, "\n") != strings.Join(df[i], "\n") {
				return vFailf("reg %v: day %d of the default output is not the --no-totals block followed by the --totals-only block.\n--- default:\n%s\n--- no-totals:\n%s\n--- totals-only:\n%s", tpl.args, i, strings.Join(df[i], "\n"), strings.Join(nt[i], "\n"), strings.Join(to[i], "\n"))
			}
		}
	}
	// a drawn combination: coloured vs plain with the same other flags
	{
		args := append([]string{"reg"}, c.Flags...)
		col := run(nil, args...)
		plain := run(nc, args...)
		if vStripAnsi(col) != plain {
			return vFailf("reg %v: coloured output differs from plain output after removing escape codes", c.Flags)
		}
		ctx.Label("flagset:" + strings.Join(c.Flags, " "))
	}
	// the selecting reports (one food, one element, one element by food) under every presentation option: the option may
	// change the layout, never which records are shown or their numbers (escape codes removed, rows read by value)
	{
		x := "x"
		if len(c.S.Basics) > 0 {
			x = c.S.Basics[0]
		}
		food := "."
		if len(c.S.Recipes) > 0 {
			food = vQuoteMeta(c.S.Recipes[0])
		}
		pres := [][]string{{"--use-old-reg-reporter"}, {"--internal-template-name", "left-aligned"}, {"--shorten"}, {"--no-totals"}, {"--totals-only"}, {"--no-color"},
			{"--use-old-reg-reporter", "--shorten"}, {"--internal-template-name", "default"}}
		sels := [][]string{{"-f", food}, {"-f", "."}, {"-s", x}, {"-s", x, "-g"}}
		rows := func(sel []string, out string) string {
			out = vStripAnsi(out)
			switch {
			case sel[0] == "-f":
				return fmt.Sprint(vReadSingleFood(out))
			case len(sel) == 3:
				return fmt.Sprint(vReadValName(out))
			}
			return fmt.Sprint(vReadSingle(out, x))
		}
		for _, sel := range sels {
			basis := rows(sel, run(nc, append([]string{"reg"}, sel...)...))
			for pi, pr := range pres {
				args := append(append([]string{"reg"}, pr...), sel...)
				if pi%2 == 1 {
					args = append(append([]string{"reg"}, sel...), pr...)
				}
				var g []string
				if pi%3 == 0 {
					g = nc
				}
				if got := rows(sel, run(g, args...)); got != basis {
					return vFailf("%v shows other records or numbers than reg %v:\n%s\nversus\n%s", args, sel, vTrunc(got, 800), vTrunc(basis, 800))
				}
			}
		}
		ctx.Label("selection-x-presentation")
	}
	// summary
	for d := range dates {
		col := run(nil, "summary", d)
		plain := run(nc, "summary", d)
		if vStripAnsi(col) != plain {
			return vFailf("summary %s: coloured output differs from plain output after removing escape codes", d)
		}
		if msg := vCheckColours(col, "summary", c.S.Exact); msg != "" {
			return vFailf("summary %s: colour rule violated: %s", d, msg)
		}
		break
	}
	// collapse modes only join path segments: the same leaves with the same numbers (when no food is a path prefix of
	// another) and, always, the same top-level sum
	{
		items := c03Items(c.S, "")
		noPrefix := c03NoPrefix(items)
		type leafMap = map[string]string
		var baseLeaves leafMap
		var baseTop *big.Rat
		baseRows := 0
		for mi, mode := range c03Modes {
			out := vReadBalance(run(nil, append([]string{"bal"}, mode.args...)...), false)
			leaves := leafMap{}
			top := new(big.Rat)
			nrows := 0
			for i, g := range out.Rows {
				if g.Depth == 0 {
					top.Add(top, vNum(g.Val))
					nrows++
				}
				if i+1 >= len(out.Rows) || out.Rows[i+1].Depth <= g.Depth {
					leaves[g.Path] = g.Val
				}
			}
			if mi == 0 {
				baseLeaves, baseTop, baseRows = leaves, top, nrows
				continue
			}
			tol := new(big.Rat)
			if !c.S.Exact {
				tol = vRatMul(big.NewRat(int64(nrows+baseRows)+1, 2), vCent)
				tol.Add(tol, vRatMul(big.NewRat(1, 1000000000000), vRatAbs(baseTop)))
			}
			if vRatAbs(vRatSub(top, baseTop)).Cmp(tol) > 0 {
				return vFailf("bal %v: the top-level rows add up to %s, in the default mode to %s", mode.args, top.FloatString(2), baseTop.FloatString(2))
			}
			if noPrefix {
				if len(leaves) != len(baseLeaves) {
					return vFailf("bal %v shows %d leaf paths, the default mode %d", mode.args, len(leaves), len(baseLeaves))
				}
				for p, v := range baseLeaves {
					if leaves[p] != v {
						return vFailf("bal %v shows %q for leaf %q, the default mode shows %s", mode.args, leaves[p], p, v)
					}
				}
			}
		}
	}
	// (e) --desc is the reverse order, same rows
	for _, cmd := range [][]string{{"report", "quantity"}, {"report", "element-total", c.X}} {
		asc := vReadValName(run(nil, cmd...))
		descArgs := append([]string{cmd[0], cmd[1], "--desc"}, cmd[2:]...)
		desc := vReadValName(run(nil, descArgs...))
		if msg := c15AscDesc(asc, desc); msg != "" {
			return vFailf("%v vs --desc: %s", cmd, msg)
		}
	}
	return nil
}

func c15SameRecords(a, b []vRegDay) string {
	if len(a) != len(b) {
		return fmt.Sprintf("%d vs %d days", len(a), len(b))
	}
	for i := range a {
		x, y := a[i], b[i]
		if x.Date != y.Date || len(x.Foods) != len(y.Foods) || len(x.Totals) != len(y.Totals) {
			return fmt.Sprintf("day %d: (%s, %d foods, %d totals) vs (%s, %d foods, %d totals)", i, x.Date, len(x.Foods), len(x.Totals), y.Date, len(y.Foods), len(y.Totals))
		}
		for k := range x.Foods {
			if x.Foods[k].Name != y.Foods[k].Name || x.Foods[k].Val != y.Foods[k].Val || len(x.Foods[k].Ingrs) != len(y.Foods[k].Ingrs) {
				return fmt.Sprintf("day %d food %d: %v vs %v", i, k, x.Foods[k], y.Foods[k])
			}
			for j := range x.Foods[k].Ingrs {
				if x.Foods[k].Ingrs[j] != y.Foods[k].Ingrs[j] {
					return fmt.Sprintf("day %d food %d ingredient %d: %v vs %v", i, k, j, x.Foods[k].Ingrs[j], y.Foods[k].Ingrs[j])
				}
			}
		}
		for k := range x.Totals {
			if x.Totals[k] != y.Totals[k] {
				return fmt.Sprintf("day %d total %d: %v vs %v", i, k, x.Totals[k], y.Totals[k])
			}
		}
	}
	return ""
}

// strict: the layout shortens (the default template does; the old reporter and the left-aligned template print names as they are), so a name longer than its column must come out
// shortened; the left-aligned template puts names last on the line and leaves them alone
func c15Shortened(orig, sh []vRegDay, strict bool) string {
	ok := func(shown, o string, width int) bool {
		if !strict && shown == o {
			return true
		}
		return vShortenOK(shown, o, width)
	}
	if len(orig) != len(sh) {
		return fmt.Sprintf("%d days instead of %d", len(sh), len(orig))
	}
	for i := range orig {
		x, y := orig[i], sh[i]
		if x.Date != y.Date || len(x.Foods) != len(y.Foods) || len(x.Totals) != len(y.Totals) {
			return fmt.Sprintf("day %d has a different shape", i)
		}
		for k := range x.Foods {
			if y.Foods[k].Val != x.Foods[k].Val || len(x.Foods[k].Ingrs) != len(y.Foods[k].Ingrs) {
				return fmt.Sprintf("day %d food %d changed: %v vs %v", i, k, x.Foods[k], y.Foods[k])
			}
			if !ok(y.Foods[k].Name, x.Foods[k].Name, 27) {
				return fmt.Sprintf("food name %q shown as %q (not a prefix…suffix within 27 columns)", x.Foods[k].Name, y.Foods[k].Name)
			}
			for j := range x.Foods[k].Ingrs {
				a, b := x.Foods[k].Ingrs[j], y.Foods[k].Ingrs[j]
				if a.Val != b.Val || !ok(b.Name, a.Name, 20) {
					return fmt.Sprintf("ingredient (%q, %s) shown as (%q, %s)", a.Name, a.Val, b.Name, b.Val)
				}
			}
		}
		for k := range x.Totals {
			a, b := x.Totals[k], y.Totals[k]
			if a.Pos != b.Pos || a.Neg != b.Neg || a.Sum != b.Sum || !ok(b.Name, a.Name, 20) {
				return fmt.Sprintf("total row %v shown as %v", a, b)
			}
		}
	}
	return ""
}

func c15AscDesc(asc, desc []vValName) string {
	if len(asc) != len(desc) {
		return fmt.Sprintf("%d rows ascending, %d rows descending", len(asc), len(desc))
	}
	key := func(r vValName) string { return r.Val + "\t" + r.Name }
	a, d := []string{}, []string{}
	for i := range asc {
		a = append(a, key(asc[i]))
		d = append(d, key(desc[i]))
		if i > 0 {
			if vNum(asc[i-1].Val).Cmp(vNum(asc[i].Val)) > 0 {
				return fmt.Sprintf("ascending output is not monotone at row %d", i)
			}
			if vNum(desc[i-1].Val).Cmp(vNum(desc[i].Val)) < 0 {
				return fmt.Sprintf("descending output is not monotone at row %d", i)
			}
		}
	}
	sort.Strings(a)
	sort.Strings(d)
	if strings.Join(a, "\n") != strings.Join(d, "\n") {
		return "the two outputs do not contain the same rows"
	}
	return ""
}

func genC15(t *rapid.T) c15Case {
	vLongNameOneIn = 3
	defer func() { vLongNameOneIn = 10 }()
	layout := []string{"", "", "", "2006/01/02 %", "%d 2006-01-02 %s", "02.01.2006", "2006-01-02 15:04:05.000", "2006/01/02 15:04 MST"}[rapid.IntRange(0, 7).Draw(t, "layout")]
	s := vGenScenario(t, vScenOpts{MinDays: 1, MaxDays: 4, MaxEntries: 5, DateLayout: layout, Paths: rapid.IntRange(0, 2).Draw(t, "paths") == 0, PathSegs: []string{"a", "b", "c", "dd", "e f", ".", "..", "ax"}, PathMax: 4})
	if (layout == "2006-01-02 15:04:05.000" || layout == "2006/01/02 15:04 MST") && len(s.Days) == len(s.Log.Recs) {
		// headings that differ only in what a coarser look does not see: the same second with another fraction, the
		// same instant under another zone name; every record is shown under the heading it was written with
		for i := range s.Log.Recs {
			if i > 0 && rapid.Bool().Draw(t, "sameday") {
				s.Days[i] = s.Days[i-1]
			}
			if layout == "2006-01-02 15:04:05.000" {
				s.Log.Recs[i].Head = fmt.Sprintf("%s 08:15:30.%03d", vFmtDay(s.Days[i], "2006-01-02"), []int{250, 750, 0, 999, 251}[rapid.IntRange(0, 4).Draw(t, "frac")])
			} else {
				s.Log.Recs[i].Head = fmt.Sprintf("%s 08:15 %s", vFmtDay(s.Days[i], ""), []string{"CET", "EET", "UTC", "GMT", "WET", "MSK"}[rapid.IntRange(0, 5).Draw(t, "abbr")])
			}
		}
	}
	// two recipes whose name+quantity spell the same text when written without a separator
	// ("b1" x 25 and "b12" x 5): any cache or index keyed by such a concatenation mixes them up
	if rapid.IntRange(0, 4).Draw(t, "concat") == 0 && len(s.Log.Recs) > 0 {
		plain := vLayout{Indent: "  ", Sep: ": ", EOL: "\n"}
		base := "supp/b" + fmt.Sprint(rapid.IntRange(1, 9).Draw(t, "cb"))
		d := fmt.Sprint(rapid.IntRange(1, 9).Draw(t, "cd"))
		rest := fmt.Sprint(rapid.IntRange(1, 9).Draw(t, "cr"))
		n1, n2 := base, base+d
		s.Book.Recs = append(s.Book.Recs,
			vRec{Head: n1, HL: vLayout{EOL: "\n"}, Lines: []vLine{{Kind: vkEntry, Name: "x1", Num: "2", L: plain}}},
			vRec{Head: n2, HL: vLayout{EOL: "\n"}, Lines: []vLine{{Kind: vkEntry, Name: "x2", Num: "3", L: plain}, {Kind: vkEntry, Name: "x1", Num: "-1", L: plain}}})
		s.Book.NoFinalNL = false
		s.Recipes = append(s.Recipes, n1, n2)
		i := rapid.IntRange(0, len(s.Log.Recs)-1).Draw(t, "cday")
		j := rapid.IntRange(0, len(s.Log.Recs)-1).Draw(t, "cday2")
		s.Log.Recs[i].Lines = append(s.Log.Recs[i].Lines, vLine{Kind: vkEntry, Name: n1, Num: d + rest, L: plain})
		s.Log.Recs[j].Lines = append(s.Log.Recs[j].Lines, vLine{Kind: vkEntry, Name: n2, Num: rest, L: plain})
		s.Log.NoFinalNL = false
	}
	if len(s.Log.Recs) > 0 && rapid.IntRange(0, 3).Draw(t, "tinyamounts") == 0 {
		// amounts that are not zero but print as 0.00 (coloured like any other positive or negative amount)
		plain := vLayout{Indent: "  ", Sep: ": ", EOL: "\n"}
		i := rapid.IntRange(0, len(s.Log.Recs)-1).Draw(t, "tinyday")
		for k := rapid.IntRange(1, 2).Draw(t, "tinyn"); k > 0; k-- {
			s.Log.Recs[i].Lines = append(s.Log.Recs[i].Lines, vLine{Kind: vkEntry, Name: []string{"speck~a", "speck~b"}[k-1], Num: []string{"0.004", "-0.003", "0.0049", "-0.001", "0.000001"}[rapid.IntRange(0, 4).Draw(t, "tinyv")], L: plain})
		}
		s.Log.NoFinalNL = false
	}
	if layout != "2006-01-02 15:04:05.000" && layout != "2006/01/02 15:04 MST" && len(s.Log.Recs) > 0 && len(s.Days) == len(s.Log.Recs) && rapid.IntRange(0, 9).Draw(t, "zeroday") == 0 {
		i := rapid.IntRange(0, len(s.Days)-1).Draw(t, "zerodayat")
		s.Days[i] = vZeroDay
		s.Log.Recs[i].Head = vFmtDay(vZeroDay, layout)
	}
	c := c15Case{S: s, Layout: layout, X: s.Basics[rapid.IntRange(0, len(s.Basics)-1).Draw(t, "x")]}
	switch rapid.IntRange(0, 2).Draw(t, "tpl") {
	case 1:
		c.Flags = append(c.Flags, "--internal-template-name", "left-aligned")
	case 2:
		c.Flags = append(c.Flags, "--use-old-reg-reporter")
	}
	if rapid.Bool().Draw(t, "shorten") {
		c.Flags = append(c.Flags, "--shorten")
	}
	switch rapid.IntRange(0, 2).Draw(t, "totals") {
	case 1:
		c.Flags = append(c.Flags, "--no-totals")
	case 2:
		c.Flags = append(c.Flags, "--totals-only")
	}
	return c
}

func init() { vRegister("C15", "c15.random", checkC15) }

func TestVerifC15Random(t *testing.T) {
	vRapid(t, "C15", "c15.random",
		"cases as C02 (names up to 36 runes incl. multi-byte, empty days, zero amounts); for each of the 3 register reporters: coloured vs plain (strip-ANSI equality + colour of every amount by sign), --no-color globally vs on the sub-command, same record stream, --shorten rule, default = --no-totals + --totals-only per day; a drawn flag combination coloured vs plain; summary colours; balance default vs --collapse vs --collapse-last (same leaves and numbers, same top-level sum); --desc vs ascending for report quantity / element-total; non-trivial = a day with both signs and a name longer than its column",
		vBudget(1600, 32000), genC15, checkC15)
}
