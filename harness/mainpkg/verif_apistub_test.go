//go:build go1.21 && !verifapi

package main

// Fallback when verif_api_test.go does not compile against the tree under test (its internal configuration structs were
// changed): no function-level entry points, the checks that need them report "api-layer-unavailable" and skip.

import "io"

const vAPIAvailable = false

var vAPICmds []vAPICmd

func vStatsAPI(logPath, dbPath string, out io.Writer) error { return nil }
