//go:build go1.21

package main

// C17 — a report that cannot be written completely yields a non-zero exit.

import (
	"bytes"
	"fmt"
	"io"
	"os"
	"os/exec"
	"strings"
	"syscall"
	"testing"
	"time"

	"pgregory.net/rapid"
)

// vFaultWriter accepts exactly Limit bytes and fails afterwards.
type vFaultWriter struct {
	limit   int
	written int
	err     error
	buf     bytes.Buffer
}

func (w *vFaultWriter) Write(p []byte) (int, error) {
	room := w.limit - w.written
	if room >= len(p) {
		w.written += len(p)
		w.buf.Write(p)
		return len(p), nil
	}
	if room < 0 {
		room = 0
	}
	w.written += room
	w.buf.Write(p[:room])
	return room, w.err
}

var c17Errors = []error{syscall.ENOSPC, syscall.EPIPE, io.ErrShortWrite}

type c17Case struct {
	S    vScenario `json:"s"`
	X    string    `json:"x,omitempty"` // element argument ("" = the first basic element)
	Cmd  int       `json:"cmd"`         // index into vAPICmds; len(vAPICmds) = stats
	Err  int       `json:"err"`
	Seed uint64    `json:"seed"` // derives the sampled offsets of large reports
}

func c17Offsets(n int, seed uint64, allUpTo int) []int {
	if n <= allUpTo {
		return vIota(n)
	}
	set := map[int]bool{0: true, 1: true, n - 1: true}
	for b := 4096; b < n; b += 4096 {
		for _, d := range []int{-1, 0, 1} {
			if b+d >= 0 && b+d < n {
				set[b+d] = true
			}
		}
	}
	s := seed
	for i := 0; i < 40; i++ {
		s = vSplitMix(s)
		set[int(s%uint64(n))] = true
	}
	out := make([]int, 0, len(set))
	for k := range set {
		out = append(out, k)
	}
	return out
}

func checkC17(c c17Case, ctx *vCtx) *vFailure {
	logText, bookText := c.S.Log.Render(), c.S.Book.Render()
	x := "x"
	if len(c.S.Basics) > 0 {
		x = c.S.Basics[0]
	}
	if c.X != "" {
		x = c.X
	}
	name := "stats"
	var call func(out io.Writer) (error, string)
	if c.Cmd < len(vAPICmds) {
		cmd := vAPICmds[c.Cmd]
		name = cmd.Name
		call = func(out io.Writer) (error, string) {
			return vCallAPI(cmd, strings.NewReader(logText), strings.NewReader(bookText), out, x)
		}
	} else {
		f := c.S.Write("c17")
		call = func(out io.Writer) (err error, pan string) {
			defer func() {
				if r := recover(); r != nil {
					pan = fmt.Sprint(r)
				}
			}()
			return vStatsAPI(f.Log, f.Book, out), ""
		}
	}
	var full bytes.Buffer
	err, pan := call(&full)
	ctx.Run(1)
	if err != nil || pan != "" {
		vViolate("C17: %s fails with a healthy writer: %v %s", name, err, pan)
	}
	n := full.Len()
	ctx.Label("cmd:" + name)
	switch {
	case n == 0:
		ctx.Label("report=empty")
	case n <= 4096:
		ctx.Label("report<=4096")
	default:
		ctx.Label("report>4096")
	}
	ctx.NonTrivial(n > 1)
	for _, k := range c17Offsets(n, c.Seed, vPick(2000, 20000)) {
		w := &vFaultWriter{limit: k, err: c17Errors[c.Err]}
		err, pan := call(w)
		ctx.Run(1)
		if pan != "" {
			return vFailf("%s panics when the output sink fails after %d bytes: %s", name, k, vTrunc(pan, 800))
		}
		if err == nil {
			return vFailSig("C17/"+name+"/write-error-dropped", "%s reports success although the output sink failed with %q after accepting %d of the %d bytes of the report", name, c17Errors[c.Err], k, n)
		}
	}
	// control: a sink with room for exactly the report succeeds and holds the full report
	w := &vFaultWriter{limit: n, err: c17Errors[c.Err]}
	err, pan = call(w)
	ctx.Run(1)
	if err != nil || pan != "" || w.buf.String() != full.String() {
		return vFailf("%s: with a sink that has room for exactly the %d bytes of the report: err=%v panic=%q, report complete=%v", name, n, err, pan, w.buf.String() == full.String())
	}
	return nil
}

func genC17(t *rapid.T) c17Case {
	exact := true
	maxDays := 5
	if rapid.IntRange(0, 3).Draw(t, "big") == 0 {
		maxDays = 40
	}
	s := vGenScenario(t, vScenOpts{MinDays: 0, MaxDays: maxDays, MaxEntries: 6, Exact: &exact, Window: 20})
	c := c17Case{S: s, Cmd: rapid.IntRange(0, len(vAPICmds)).Draw(t, "cmd"), Err: rapid.IntRange(0, len(c17Errors)-1).Draw(t, "err"), Seed: rapid.Uint64().Draw(t, "seed")}
	// one basic element in three gets a name that needs quoting in any delimiter-separated output
	if rapid.IntRange(0, 2).Draw(t, "special") == 0 {
		old := s.Basics[rapid.IntRange(0, len(s.Basics)-1).Draw(t, "specialwhich")]
		nn := old + []string{";3", "\"q", ";", ",x", "\" \"z"}[rapid.IntRange(0, 4).Draw(t, "specialform")]
		taken := false
		for _, l := range [][]string{s.Basics, s.Recipes, s.Unknown} {
			for _, x := range l {
				taken = taken || x == nn
			}
		}
		if !taken {
			s.Rename(old, nn)
			c.S = s
		}
	}
	// the element argument: any basic element, a recipe name, a case variant of one of them, or an unknown name
	switch rapid.IntRange(0, 5).Draw(t, "xkind") {
	case 0:
		c.X = vToggleCase(s.Basics[rapid.IntRange(0, len(s.Basics)-1).Draw(t, "xi")])
	case 1:
		c.X = "no such element"
	case 2:
		if len(s.Recipes) > 0 {
			c.X = s.Recipes[rapid.IntRange(0, len(s.Recipes)-1).Draw(t, "xr")]
		}
	default:
		c.X = s.Basics[rapid.IntRange(0, len(s.Basics)-1).Draw(t, "xi")]
	}
	return c
}

// ---------------------------------------------------------------------------
// process level: /dev/full and a closed pipe

type c17CLICase struct {
	Cmd  int    `json:"cmd"`            // index into c10CLICmds
	Sink string `json:"sink"`           // "devfull-inprocess" | "devfull-binary" | "closed-pipe-binary"
	Big  bool   `json:"big"`            // report larger than the stdout buffer
	Days int    `json:"days,omitempty"` // explicit number of log days (medium-sized reports: larger than the file-size limit, smaller than the buffer)
	// Shape: "" | "epoch-last" (the last record is dated 1970/01/01, second 0 of the Unix clock) | "zero-first" (the first
	// record is dated 0001/01/01) | "rows:N" (a log of exactly N entries in days of 256 different foods: 255/256/257, 65535/65536/65537)
	Shape string `json:"shape,omitempty"`
}

// c17ShapedFiles builds the log for a Shape (the recipe book is the small one).
func c17ShapedFiles(shape string) (string, string) {
	var lb strings.Builder
	bb := "meal:\n  x: 2\n  y: -3\nmeal2:\n  meal: 2\n  x: 1\n"
	day := func(d int, n int) {
		lb.WriteString(vFmtDay(d, "") + ":\n")
		for i := 0; i < n; i++ {
			if i == 0 {
				lb.WriteString("  meal: 1\n")
			} else {
				fmt.Fprintf(&lb, "  food %d: %d\n", i, i%9+1)
			}
		}
	}
	switch {
	case shape == "one-food": // the whole log is one entry of one food with a category path
		lb.WriteString(vFmtDay(3, "") + ":\n  dairy/milk/whole: 2\n")
	case shape == "one-food-twice": // one food, logged on two days
		lb.WriteString(vFmtDay(3, "") + ":\n  meal: 2\n" + vFmtDay(4, "") + ":\n  meal: 1\n")
	case shape == "today-last":
		day(3, 4)
		day(5, 4)
		day(9, 4) // vToday
	case shape == "today-first":
		day(9, 4)
		day(3, 4)
	case shape == "period-none":
		day(3, 4)
		day(5, 4)
	case shape == "epoch-last":
		day(3, 4)
		day(5, 4)
		day(vDaysFromCivil(1970, 1, 1), 4)
	case shape == "zero-first":
		day(vZeroDay, 4)
		day(3, 4)
		day(5, 4)
	case strings.HasPrefix(shape, "widebook:"): // the recipe that comes last (in the file and in name order) has N ingredient lines
		n := 0
		fmt.Sscanf(shape, "widebook:%d", &n)
		var wb strings.Builder
		wb.WriteString(bb + "zz wide:\n")
		for i := 0; i < n; i++ {
			fmt.Fprintf(&wb, "  el %03d: %d\n", i, i%7+1)
		}
		bb = wb.String()
		day(3, 4)
		lb.WriteString("  zz wide: 1\n")
	case strings.HasPrefix(shape, "bigcat:"): // the top-level category that sorts last holds N foods
		n := 0
		fmt.Sscanf(shape, "bigcat:%d", &n)
		day(3, 3)
		for i := 0; i < n; i++ {
			fmt.Fprintf(&lb, "  zz/food %03d: %d\n", i, i%7+1)
		}
	case strings.HasPrefix(shape, "distinct:"): // N different foods nothing defines, in days of 256
		n := 0
		fmt.Sscanf(shape, "distinct:%d", &n)
		for d, k := 0, 0; k < n; d++ {
			lb.WriteString(vFmtDay(d, "") + ":\n")
			for i := 0; i < 256 && k < n; i, k = i+1, k+1 {
				fmt.Fprintf(&lb, "  item %d: %d\n", k, k%9+1)
			}
		}
	case strings.HasPrefix(shape, "longday-then-excluded:"): // a day of N entries, then days the period (-e) leaves out
		n := 0
		fmt.Sscanf(shape, "longday-then-excluded:%d", &n)
		if n%2 == 1 {
			day(1, 3) // odd N: a short day first
		}
		day(3, n)
		day(5, 4)
		day(6, 2)
	case strings.HasPrefix(shape, "rows:"):
		n := 0
		fmt.Sscanf(shape, "rows:%d", &n)
		for d := 0; n > 0; d++ {
			k := 256
			if n < k {
				k = n
			}
			day(d, k)
			n -= k
		}
	default:
		vFault("unknown shape %q", shape)
	}
	return vWriteFile("c17-log.yaml", lb.String()), vWriteFile("c17-book.yaml", bb)
}

func c17FilesN(days int) (string, string) {
	var lb strings.Builder
	bb := "meal:\n  x: 2\n  y: -3\nmeal2:\n  meal: 2\n  x: 1\n"
	for i := 0; i < days; i++ {
		lb.WriteString(fmt.Sprintf("%s:\n  meal: %d\n  meal2: 1\n  unknown/food: 2\n  x: 1\n", vFmtDay(i, ""), i%7+1))
	}
	return vWriteFile("c17-log.yaml", lb.String()), vWriteFile("c17-book.yaml", bb)
}

func c17Files(big bool) (string, string) {
	var lb, bb strings.Builder
	bb.WriteString("meal:\n  x: 2\n  y: -3\nmeal2:\n  meal: 2\n  x: 1\n")
	days := 3
	if big {
		days = 1300 // more days than any read-ahead a command may keep
	}
	for i := 0; i < days; i++ {
		lb.WriteString(fmt.Sprintf("%s:\n  meal: %d\n  meal2: 1\n  unknown/food: 2\n  x: 1\n", vFmtDay(i, ""), i%7+1))
	}
	if big {
		for i := 0; i < 400; i++ {
			bb.WriteString(fmt.Sprintf("r%d:\n  x: %d\n  meal: 1\n", i, i))
			lb.WriteString(fmt.Sprintf("  r%d: 1\n  u%d: 1\n", i, i))
		}
	}
	return vWriteFile("c17-log.yaml", lb.String()), vWriteFile("c17-book.yaml", bb.String())
}

func checkC17CLI(c c17CLICase, ctx *vCtx) *vFailure {
	cmd := c10CLICmds[c.Cmd]
	lp, bp := c17Files(c.Big)
	if c.Days > 0 {
		lp, bp = c17FilesN(c.Days)
	}
	if c.Shape != "" {
		lp, bp = c17ShapedFiles(c.Shape)
		ctx.Label("shape:" + strings.SplitN(c.Shape, ":", 2)[0])
	}
	args := make([]string, len(cmd.args))
	for i, a := range cmd.args {
		args[i] = strings.ReplaceAll(strings.ReplaceAll(a, "@LOG@", lp), "@BOOK@", bp)
	}
	inv := vInvocation{Args: append([]string{"--today", vToday, "-d", bp, "-l", lp}, args...)}
	if strings.HasPrefix(c.Shape, "longday-then-excluded:") {
		inv.Args = append([]string{"-e", vFmtDay(3, "")}, inv.Args...)
	}
	if c.Shape == "period-none" {
		// a period that holds no record: whatever the command still prints (a footer, a header, counts) must get through
		inv.Args = append([]string{"-b", "2031/01/01"}, inv.Args...)
	}
	// control: the report is not empty
	r := vRunApp(inv)
	ctx.Run(1)
	if c.Shape != "" && !r.Failed && r.Stdout == "" {
		ctx.Excluded("the command prints nothing for this shaped log")
		return nil
	}
	if r.Failed || r.Stdout == "" {
		vFault("C17: control run of %v: failed=%v, %d bytes", cmd.args, r.Failed, len(r.Stdout))
	}
	ctx.Label("sink:" + c.Sink)
	ctx.Label("cmd:" + strings.Join(cmd.args[:vMin(2, len(cmd.args))], " "))
	ctx.NonTrivial(true)
	failed := false
	detail := ""
	switch c.Sink {
	case "devfull-inprocess":
		df, err := os.OpenFile("/dev/full", os.O_WRONLY, 0)
		if err != nil {
			vFault("cannot open /dev/full: %v", err)
		}
		defer df.Close()
		r := vRunAppTo(inv, df)
		ctx.Run(1)
		if r.Panic != "" {
			return vFailf("%v panics with stdout = /dev/full: %s", cmd.args, vTrunc(r.Panic, 800))
		}
		failed, detail = r.Failed, r.Err
	case "regular-file-size-limit":
		if len(r.Stdout) <= 600 {
			ctx.Label("report-fits-the-limit")
			return nil // nothing is refused: not a fault case
		}
		// stdout is a regular file that may not grow beyond 1 KiB (RLIMIT_FSIZE): the write is refused with EFBIG
		outp := vWriteFile("c17-limited-output.txt", "")
		quoted := make([]string, 0, len(inv.Args))
		for _, a := range inv.Args {
			quoted = append(quoted, "'"+strings.ReplaceAll(a, "'", "'\\''")+"'")
		}
		p := exec.Command("sh", "-c", "ulimit -f 1; exec '"+vRealBin+"' "+strings.Join(quoted, " ")+" > '"+outp+"'")
		p.Env = []string{"PATH=/usr/bin:/bin", "TZ=UTC", "HOME=" + vScratchDir()}
		var se bytes.Buffer
		p.Stderr = &se
		done := make(chan error, 1)
		if err := p.Start(); err != nil {
			vFault("start: %v", err)
		}
		go func() { done <- p.Wait() }()
		select {
		case err := <-done:
			failed = err != nil
			detail = fmt.Sprintf("%v; stderr: %s", err, vTrunc(se.String(), 300))
		case <-time.After(60 * time.Second):
			_ = p.Process.Kill()
			<-done
			vHang("the real binary did not terminate within 60 s writing to a size-limited file")
		}
		ctx.Run(1)
		if st, err := os.Stat(outp); err == nil && st.Size() >= int64(len(r.Stdout)) {
			vFault("C17: the size limit did not bite (%d bytes written, report has %d)", st.Size(), len(r.Stdout))
		}
	default:
		p := exec.Command(vRealBin, inv.Args...)
		p.Env = []string{"PATH=/usr/bin:/bin", "TZ=UTC", "HOME=" + vScratchDir()}
		var se bytes.Buffer
		p.Stderr = &se
		var closer func()
		if c.Sink == "devfull-binary" {
			df, err := os.OpenFile("/dev/full", os.O_WRONLY, 0)
			if err != nil {
				vFault("cannot open /dev/full: %v", err)
			}
			p.Stdout = df
			closer = func() { df.Close() }
		} else {
			pr, pw, err := os.Pipe()
			if err != nil {
				vFault("pipe: %v", err)
			}
			pr.Close() // nobody will ever read
			p.Stdout = pw
			closer = func() { pw.Close() }
		}
		done := make(chan error, 1)
		if err := p.Start(); err != nil {
			closer()
			vFault("start: %v", err)
		}
		go func() { done <- p.Wait() }()
		select {
		case err := <-done:
			failed = err != nil
			detail = fmt.Sprintf("%v; stderr: %s", err, vTrunc(se.String(), 300))
		case <-time.After(60 * time.Second):
			_ = p.Process.Kill()
			<-done
			closer()
			vHang("the real binary did not terminate within 60 s writing to %s", c.Sink)
		}
		closer()
		ctx.Run(1)
	}
	if !failed {
		return vFailSig("C17/cli/"+cmd.args[0]+"/exit-zero", "%v ends with status 0 although its report (%d bytes) could not be written (%s)", cmd.args, len(r.Stdout), c.Sink)
	}
	_ = detail
	return nil
}

// ---------------------------------------------------------------------------
// every boolean option the program declares (read from its flag definitions at run time), as flag and as environment
// variable, with and without a period that ends before the last record: the exit status rule must hold under all of them

type c17SurfaceCase struct {
	Cmd    int    `json:"cmd"`   // index into c10CLICmds
	Where  string `json:"where"` // "global" | "command" | "env"
	Name   string `json:"name"`  // "--flag" or the environment variable
	Period bool   `json:"period"`
	Big    bool   `json:"big"`
}

func c17CmdPath(args []string) []string {
	if args[0] == "csv" || args[0] == "report" {
		return args[:2]
	}
	return args[:1]
}

func checkC17Surface(c c17SurfaceCase, ctx *vCtx) *vFailure {
	cmd := c10CLICmds[c.Cmd]
	lp, bp := c17FilesN(12)
	if c.Big {
		lp, bp = c17Files(true)
	}
	args := make([]string, len(cmd.args))
	for i, a := range cmd.args {
		args[i] = strings.ReplaceAll(strings.ReplaceAll(a, "@LOG@", lp), "@BOOK@", bp)
	}
	global := []string{"--today", vToday, "-d", bp, "-l", lp}
	if c.Period {
		global = append(global, "-b", vFmtDay(1, ""), "-e", vFmtDay(5, ""))
	}
	env := map[string]string{}
	n := len(c17CmdPath(cmd.args))
	switch c.Where {
	case "global":
		global = append(global, c.Name)
	case "command":
		args = append(append(append([]string{}, args[:n]...), c.Name), args[n:]...)
	case "env":
		env[c.Name] = "1"
	}
	inv := vInvocation{Args: append(global, args...), Env: env}
	r := vRunApp(inv)
	ctx.Run(1)
	ctx.Label("where:" + c.Where)
	if r.Failed || r.Stdout == "" {
		ctx.Excluded("the option makes the command fail or print nothing")
		return nil
	}
	ctx.NonTrivial(true)
	df, err := os.OpenFile("/dev/full", os.O_WRONLY, 0)
	if err != nil {
		vFault("cannot open /dev/full: %v", err)
	}
	defer df.Close()
	fr := vRunAppTo(inv, df)
	ctx.Run(1)
	if fr.Panic != "" {
		return vFailf("%v (env %v) panics with stdout = /dev/full: %s", inv.Args, env, vTrunc(fr.Panic, 800))
	}
	if !fr.Failed {
		return vFailSig("C17/cli/"+cmd.args[0]+"/exit-zero", "%v (env %v) ends with status 0 although its report (%d bytes) could not be written (/dev/full)", inv.Args, env, len(r.Stdout))
	}
	return nil
}

func c17SurfaceSpace() []c17SurfaceCase {
	var out []c17SurfaceCase
	for ci, cmd := range c10CLICmds {
		if cmd.empty {
			continue
		}
		for _, o := range vSurfaceBools(c17CmdPath(cmd.args)) {
			for _, period := range []bool{false, true} {
				for _, big := range []bool{false, true} {
					out = append(out, c17SurfaceCase{Cmd: ci, Where: o.Where, Name: o.Name, Period: period, Big: big})
				}
			}
		}
	}
	return out
}

func TestVerifC17Surface(t *testing.T) {
	space := c17SurfaceSpace()
	vEnum(t, "C17", "c17.surface",
		"every boolean option the program declares (global and per command, read from the flag definitions of the running program, also through its environment variable) x 18 command lines x {no period, a period that ends before the last record} x {small, large report}, stdout = /dev/full in process; must end with a non-zero status whenever the same invocation prints a non-empty report to a working stdout",
		fmt.Sprintf("%d combinations", len(space)), len(space), func(i int) c17SurfaceCase { return space[i] }, checkC17Surface)
}

func c17CLISpace() []c17CLICase {
	var out []c17CLICase
	for ci := range c10CLICmds {
		if c10CLICmds[ci].empty {
			continue
		}
		for _, sink := range []string{"devfull-inprocess", "devfull-binary", "closed-pipe-binary"} {
			for _, big := range []bool{false, true} {
				out = append(out, c17CLICase{Cmd: ci, Sink: sink, Big: big})
			}
		}
		out = append(out, c17CLICase{Cmd: ci, Sink: "regular-file-size-limit", Big: true})
		for _, shape := range []string{"one-food", "one-food-twice", "today-last", "today-first", "period-none", "epoch-last", "zero-first", "rows:255", "rows:256", "rows:257", "rows:65535", "rows:65536", "rows:65537",
			"widebook:47", "widebook:48", "widebook:60", "widebook:400", "bigcat:30", "bigcat:45", "bigcat:200", "distinct:1000", "distinct:1001", "distinct:1200", "distinct:5000", "longday-then-excluded:60", "longday-then-excluded:100", "longday-then-excluded:101", "longday-then-excluded:1000"} {
			if strings.HasPrefix(shape, "rows:6") && !vThorough() && shape != "rows:65536" {
				continue // quick: the exact power of two only
			}
			out = append(out, c17CLICase{Cmd: ci, Sink: "devfull-inprocess", Shape: shape})
		}
		for _, days := range []int{8, 15, 25, 40} { // reports of roughly 0.5 - 4 KiB: the refusal is first seen by the final flush
			out = append(out, c17CLICase{Cmd: ci, Sink: "regular-file-size-limit", Days: days})
			out = append(out, c17CLICase{Cmd: ci, Sink: "devfull-binary", Days: days})
		}
	}
	return out
}

// ---------------------------------------------------------------------------
// size sweep: report lengths swept finely across buffer boundaries

type c17SweepCase struct {
	Cmd      int `json:"cmd"` // index into vAPICmds
	NDays    int `json:"ndays"`
	LongName int `json:"longname"` // 0, or the byte length of one food name (longer than an output buffer)
}

func c17SweepTexts(c c17SweepCase) (string, string) {
	var lb strings.Builder
	book := "meal:\n  x: 2\n  y: -3\nmeal2:\n  meal: 2\n  x: 1\n"
	for i := 0; i < c.NDays; i++ {
		fmt.Fprintf(&lb, "%s:\n  meal: %d\n  snack/bar: 2\n  x: 1\n", vFmtDay(i, ""), i%5+1)
		if i%7 == 3 {
			fmt.Fprintf(&lb, "  a/rather/long/category/path/%d: 0.5\n", i)
		}
		if i == 0 && c.LongName > 0 {
			fmt.Fprintf(&lb, "  long/%s: 1\n", strings.Repeat("n", c.LongName-5))
		}
	}
	return lb.String(), book
}

func checkC17Sweep(c c17SweepCase, ctx *vCtx) *vFailure {
	cmd := vAPICmds[c.Cmd]
	logText, bookText := c17SweepTexts(c)
	call := func(out io.Writer) (error, string) {
		return vCallAPI(cmd, strings.NewReader(logText), strings.NewReader(bookText), out, "x")
	}
	var full bytes.Buffer
	if err, pan := call(&full); err != nil || pan != "" {
		vViolate("C17 sweep: %s fails with a healthy writer: %v %s", cmd.Name, err, pan)
	}
	ctx.Run(1)
	n := full.Len()
	ctx.Label("cmd:" + cmd.Name)
	ctx.Labelf("report-KiB=%d", n/4096*4)
	ctx.NonTrivial(n > 4096)
	set := map[int]bool{}
	for _, k := range []int{1, n / 2, n - 1, n - 100, n - 300, n - 600, n - 2000} {
		if k >= 0 && k < n {
			set[k] = true
		}
	}
	if c.LongName > 0 {
		for k := 0; k < n; k += 509 {
			set[k] = true
		}
	}
	for k := range set {
		for _, e := range []error{syscall.ENOSPC} {
			w := &vFaultWriter{limit: k, err: e}
			err, pan := call(w)
			ctx.Run(1)
			if pan != "" {
				return vFailf("%s panics when the output sink fails after %d bytes: %s", cmd.Name, k, vTrunc(pan, 800))
			}
			if err == nil {
				return vFailSig("C17/"+cmd.Name+"/write-error-dropped", "%s (log of %d days, report of %d bytes) reports success although the output sink failed after accepting %d bytes", cmd.Name, c.NDays, n, k)
			}
		}
	}
	return nil
}

func c17SweepSpace() []c17SweepCase {
	var out []c17SweepCase
	maxDays := vPick(140, 260)
	for ci := range vAPICmds {
		for nd := 1; nd <= maxDays; nd++ {
			if !vThorough() && ci >= 7 && nd%4 != 0 { // quick: every length for the register family, every 4th for the rest
				continue
			}
			out = append(out, c17SweepCase{Cmd: ci, NDays: nd})
		}
		for _, ln := range []int{4097, 5000, 9000} {
			for _, nd := range []int{1, 3, 20} {
				out = append(out, c17SweepCase{Cmd: ci, NDays: nd, LongName: ln})
			}
		}
	}
	return out
}

func TestVerifC17Sweep(t *testing.T) {
	if !vAPIGuard(t, "c17.sweep") {
		return
	}
	space := c17SweepSpace()
	vEnum(t, "C17", "c17.sweep",
		"report sizes swept finely: for every command function a log of 1..140 (thorough 260) days (report lengths from a few bytes to ~60 KiB, so the end of the report falls at every residue of the 4 KiB / 32 KiB buffers), sink failing at {1, n/2, n-1, n-100, n-300, n-600, n-2000}; plus logs with one food name of 4097/5000/9000 bytes (longer than the output buffer) with the sink failing every 509 bytes; must return an error",
		fmt.Sprintf("%d (command, size) combinations", len(space)), len(space), func(i int) c17SweepCase { return space[i] }, checkC17Sweep)
}

func init() {
	vRegister("C17", "c17.sweep", checkC17Sweep)
	vRegister("C17", "c17.writer", checkC17)
	vRegister("C17", "c17.cli", checkC17CLI)
	vRegister("C17", "c17.surface", checkC17Surface)
}

func TestVerifC17Writer(t *testing.T) {
	if !vAPIGuard(t, "c17.writer") {
		return
	}
	vRapid(t, "C17", "c17.writer",
		"every exported command function with an injectable output (22 register/balance/csv/print/summary/report/lint variants + stats) on generated books/logs whose reports range from empty to several 4096-byte blocks; the sink accepts exactly k bytes then fails (ENOSPC, EPIPE or short write) for EVERY k in [0,n) when n <= 2000 (20000 thorough), else k in {0,1,n-1, every 4096 boundary +-1, 40 drawn}; must return an error; control k = n succeeds with the complete report; evaluations count (inputs, command) pairs, program_runs the individual fault offsets; non-trivial = report longer than one byte",
		vBudget(960, 6000), genC17, checkC17)
}

func TestVerifC17CLI(t *testing.T) {
	space := c17CLISpace()
	vEnum(t, "C17", "c17.cli",
		"16 commands x {stdout = /dev/full in process, /dev/full real binary, closed pipe real binary} x {small report, report larger than the 4096-byte buffer}, plus a regular file under a 1 KiB file-size limit (EFBIG); must end with a non-zero status (death by SIGPIPE counts)",
		fmt.Sprintf("%d combinations", len(space)), len(space), func(i int) c17CLICase { return space[i] }, checkC17CLI)
}
