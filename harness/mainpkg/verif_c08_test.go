//go:build go1.21

package main

// C08 — no input makes a command crash or hang.

import (
	"bytes"
	"fmt"
	"os"
	"os/exec"
	"path/filepath"
	"strings"
	"syscall"
	"testing"
	"time"

	"pgregory.net/rapid"
)

type c08Case struct {
	Book []byte            `json:"book"` // raw bytes (may be invalid UTF-8)
	Log  []byte            `json:"log"`
	Args []string          `json:"args"` // @BOOK@ / @LOG@ / @DIR@ / @MISSING@ are replaced by paths
	Env  map[string]string `json:"env,omitempty"`
	Muts []string          `json:"muts"`
	Bin  bool              `json:"bin"`
}

// watchdog: see vWatchArm in verif_common_test.go; C08 uses a limit of its own.
const c08Limit = 60 * time.Second

func c08Subst(args []string, book, log string) []string {
	dir := filepath.Join(vScratchDir(), "c08-dir")
	_ = os.MkdirAll(dir, 0o755)
	loop := filepath.Join(vScratchDir(), "c08-loop") // a symbolic link that points at itself
	if _, err := os.Lstat(loop); err != nil {
		_ = os.Symlink("c08-loop", loop)
	}
	out := make([]string, len(args))
	for i, a := range args {
		a = strings.ReplaceAll(a, "@LOOP@", loop)
		a = strings.ReplaceAll(a, "@BOOK@", book)
		a = strings.ReplaceAll(a, "@LOG@", log)
		a = strings.ReplaceAll(a, "@DIR@", dir)
		a = strings.ReplaceAll(a, "@MISSING@", filepath.Join(vScratchDir(), "no-such-file.yaml"))
		out[i] = a
	}
	return out
}

func checkC08(c c08Case, ctx *vCtx) *vFailure {
	bp := vWriteFile("c08-book.yaml", string(c.Book))
	lp := vWriteFile("c08-log.yaml", string(c.Log))
	args := c08Subst(c.Args, bp, lp)
	env := map[string]string{}
	for k, v := range c.Env {
		env[k] = c08Subst([]string{v}, bp, lp)[0]
	}
	for _, m := range c.Muts {
		ctx.Label("mut:" + m)
	}
	if len(c.Args) > 0 {
		ctx.Label("cmd:" + c08CmdWord(c.Args))
	}
	ctx.NonTrivial(len(c.Book) > 0 && len(c.Log) > 0 && len(c.Args) > 0)
	saved := vWatchLimit
	vWatchLimit = c08Limit
	r := vRunApp(vInvocation{Args: args, Env: env})
	vWatchLimit = saved
	ctx.Run(1)
	if r.Panic != "" {
		return vFailSig(c08PanicSig(r.Panic), "%q panics: %s", c.Args, vTrunc(r.Panic, 2500))
	}
	if c.Bin {
		b := vRunBin(vInvocation{Args: args, Env: env}, c08Limit)
		ctx.Run(1)
		if b.Exit == -999 {
			return vFailSig("C08/hang", "%q: the real binary did not terminate within %s", c.Args, c08Limit)
		}
		if strings.Contains(b.Stderr, "panic:") || strings.Contains(b.Stderr, "fatal error:") || strings.Contains(b.Stderr, "goroutine ") {
			return vFailf("%q: the real binary crashed (status %d): %s", c.Args, b.Exit, vTrunc(b.Stderr, 2000))
		}
		if b.Exit < 0 {
			return vFailf("%q: the real binary was killed by a signal (%d): %s", c.Args, b.Exit, vTrunc(b.Stderr, 1000))
		}
		if (b.Exit != 0) != r.Failed {
			return vFailf("%q: in-process run failed=%v (%q) but the real binary ended with status %d (%q)", c.Args, r.Failed, r.Err, b.Exit, vTrunc(b.Stderr, 300))
		}
		if b.Exit != 0 && strings.TrimSpace(b.Stderr) == "" {
			return vFailf("%q: the real binary ended with status %d without any error message", c.Args, b.Exit)
		}
	}
	return nil
}

func c08PanicSig(p string) string {
	for _, ln := range strings.Split(p, "\n") {
		if strings.Contains(ln, "hranoprovod-cli") && strings.Contains(ln, "(") && !strings.Contains(ln, "zz_verif") && !strings.Contains(ln, "vRunApp") {
			return "C08/panic/" + strings.TrimSpace(strings.SplitN(ln, "(", 2)[0])
		}
	}
	return "C08/panic"
}

func c08CmdWord(args []string) string {
	for i, a := range args {
		switch a {
		case "reg", "register", "bal", "balance", "lint", "stats", "summary", "print":
			return a
		case "report", "csv", "gen":
			if i+1 < len(args) {
				return a + " " + args[i+1]
			}
			return a
		}
	}
	return "none"
}

// ---------------------------------------------------------------------------
// generator

var c08BadNumbers = []string{"NaN", "nan", "Inf", "-Inf", "+inf", "infinity", "1e400", "-1e400", "1e308", "1e-400", "0x1p-2", "0x10", "1_000", "1,5", "1.2.3", "--1", "", "e", ".", "-", "+", "１２", "9999999999999999999999999999999999999999", "0.00000000000000000000000000000000000000001", "0.0000000000000004", "0.0000025000000000", "9007199254740.995", "9999999.995", "9999999.999", "-999999.995", "-999999.999", "99999999999999999999", "1e", "1e+", "0e0", "-0"}

var c08Dates = []string{"2021/01/01", "2021/01/10", "2021/13/45", "0000/00/00", "0001/01/01", "0001/01/08", "0001/01/02", "1969/12/31", "1970/01/01", "1677/09/21", "2262/04/12", "9999/12/31", "2021-01-01", "01/02/2021", "today", "yesterday", "last7", "last30", "tomorrow", "next week", "last monday", "3 days ago", "in 5 minutes", "december", "", " ", "garbage", "\x01", "2021/01/01 12:00", "-1", "1e9", "last 99999999999999999999 years", "🙂", strings.Repeat("9", 400)}

var c08NearDates = []string{"2021/00/10", "2021/01/00", "2021/00/00", "2021/13/01", "2021/12/32", "2021/02/29", "2021/02/30", "2020/02/29", "1900/02/29", "2000/02/29", "2021/04/31", "2021/06/31", "2021/99/99", "0000/01/01", "0000/00/00", "9999/12/31", "2021/1/1", "2021/001/01", "02021/01/01", "+021/01/01", "-021/01/01", "2021/-1/01", "2021/ 1/01", "2021/01/1 ", "2021/0x/01", "2021/01/01x", "2021/01/01/", "2021//01", "٢٠٢١/٠١/٠١", "２０２１/０１/０１", "2021/०१/०१", "2021/01/²¹", "20210101", "2021/01", "/01/01", "2021/01/01 ", " 2021/01/01"}

var c08DateFormats = []string{"2006/01/02", "2006-01-02", "", " ", "%Y-%m-%d", "02.01.2006", "Monday", "2006", "15:04", "\x01", "2006/01/02/2006", strings.Repeat("2006", 100)}

// c08Pos: where in the line something is inserted: anywhere, or at a place that means something to the tokenizer (in front
// of the value, behind it, in front of the name).
func c08Pos(t *rapid.T, line string) int {
	body := strings.TrimRight(line, "\r\n")
	switch rapid.IntRange(0, 5).Draw(t, "poskind") {
	case 0: // start of the value (behind the last blank)
		if i := strings.LastIndexAny(body, " \t"); i >= 0 {
			return i + 1
		}
	case 1: // end of the value
		return len(body)
	case 2: // start of the name
		return len(body) - len(strings.TrimLeft(body, " \t-"))
	}
	return rapid.IntRange(0, len(line)).Draw(t, "pos")
}

func c08MutateLines(t *rapid.T, text string, isLog bool, muts *[]string) []byte {
	lines := strings.SplitAfter(text, "\n")
	// many cases keep a file intact (so that the command gets past parsing and meets the unusual values, sizes and
	// names), the others get 1-6 mutations
	n := []int{0, 0, 0, 1, 1, 2, 3, 6}[rapid.IntRange(0, 7).Draw(t, "nmut")]
	for i := 0; i < n; i++ {
		kind := rapid.IntRange(0, 28).Draw(t, "mut")
		pick := func() int {
			if len(lines) == 0 {
				lines = append(lines, "")
			}
			return rapid.IntRange(0, len(lines)-1).Draw(t, "line")
		}
		name := ""
		switch kind {
		case 0:
			name = "truncate-line"
			k := pick()
			if len(lines[k]) > 0 {
				lines[k] = lines[k][:rapid.IntRange(0, len(lines[k])-1).Draw(t, "cut")]
			}
		case 1:
			name = "drop-value"
			k := pick()
			if j := strings.LastIndex(lines[k], ":"); j >= 0 {
				lines[k] = lines[k][:j+1] + "\n"
			}
		case 2:
			name = "bad-number"
			k := pick()
			if j := strings.LastIndex(lines[k], ":"); j >= 0 {
				lines[k] = lines[k][:j+1] + " " + c08BadNumbers[rapid.IntRange(0, len(c08BadNumbers)-1).Draw(t, "bn")] + "\n"
			}
		case 3:
			name = "stray-char"
			k := pick()
			ch := []string{":", "-", "\"", "#", "\t", " ", "::", "- -", "\"\""}[rapid.IntRange(0, 8).Draw(t, "ch")]
			p := c08Pos(t, lines[k])
			lines[k] = lines[k][:p] + ch + lines[k][p:]
		case 4:
			name = "invalid-utf8"
			k := pick()
			p := c08Pos(t, lines[k])
			lines[k] = lines[k][:p] + []string{"\xff", "\xc3", "\xed\xa0\x80", "\xf8\x88\x80\x80\x80", strings.Repeat("\x80", 97), strings.Repeat("\xbf", 130), strings.Repeat("\x80", 300), strings.Repeat("\x9f", 5000), strings.Repeat("\xe4\xb8", 70), strings.Repeat("\xf0\x9f", 90)}[rapid.IntRange(0, 9).Draw(t, "bad")] + lines[k][p:]
		case 5:
			name = "nul"
			k := pick()
			p := c08Pos(t, lines[k])
			lines[k] = lines[k][:p] + "\x00" + lines[k][p:]
		case 6:
			name = "bom"
			if len(lines) > 0 {
				lines[0] = "\xef\xbb\xbf" + lines[0]
			}
		case 7:
			name = "cr-only"
			k := pick()
			lines[k] = strings.ReplaceAll(lines[k], "\n", "\r")
		case 8:
			name = "long-line"
			k := pick()
			if len(lines[k]) <= 200 {
				lines[k] = "  " + strings.Repeat("x", 70*1024) + ": 1\n" + lines[k]
			}
		case 9:
			name = "empty-file"
			lines = nil
		case 10:
			name = "only-comments"
			lines = []string{"# a\n", "#\n", "\n", "   \n"}
		case 11:
			name = "entry-before-heading"
			lines = append([]string{"  orphan: 1\n", "\tbad\n", "- x: y\n"}, lines...)
		case 12:
			name = "duplicate-heading"
			k := pick()
			end := len(lines)
			lines = append(lines, lines[k])
			for j := k + 1; j < end && strings.HasPrefix(lines[j], " "); j++ {
				lines = append(lines, lines[j])
			}
		case 13:
			name = "self-cycle"
			lines = append(lines, "selfcyc:\n", "  selfcyc: 2\n", "  x: 1\n")
		case 14:
			name = "cycle-2"
			lines = append(lines, "cycA:\n", "  cycB: 2\n", "cycB:\n", "  cycA: 0.5\n")
		case 15:
			name = "cycle-6"
			for j := 0; j < 6; j++ {
				lines = append(lines, fmt.Sprintf("cyc%d:\n", j), fmt.Sprintf("  cyc%d: 1\n", (j+1)%6))
			}
		case 16:
			name = "deep-chain"
			depth := []int{12, 300, 2000}[rapid.IntRange(0, 2).Draw(t, "depth")]
			for j := 0; j < depth; j++ {
				lines = append(lines, fmt.Sprintf("deep%d:\n", j), fmt.Sprintf("  deep%d: 1\n", j+1))
			}
		case 17:
			name = "heading-only-colon"
			lines = append(lines, ":\n", "  x: 1\n", "\"\":\n", "-:\n", "::\n")
		case 18:
			name = "huge-number"
			k := pick()
			if j := strings.LastIndex(lines[k], ":"); j >= 0 {
				lines[k] = lines[k][:j+1] + " 1e308\n"
			}
		case 19:
			name = "dup-lines-x1000"
			k := pick()
			if len(lines[k]) <= 200 { // keep files below a few hundred KiB
				lines = append(lines, strings.Repeat(lines[k], 1000))
			}
		case 20:
			name = "no-final-newline"
			if len(lines) > 0 {
				lines[len(lines)-1] = strings.TrimSuffix(lines[len(lines)-1], "\n")
			}
		case 21:
			name = "wide-fanout"
			lines = append(lines, "fan:\n")
			for j := 0; j < 500; j++ {
				lines = append(lines, fmt.Sprintf("  fan%d: %d\n", j%50, j))
			}
		case 22:
			name = "degenerate-note"
			k := pick()
			lines[k] = lines[k] + []string{"  #\n", "  # \n", "\t#:\n", "  #:\n", "  # :\n", "  ##\n", "  # : :\n", "  #\t\n", "  # weight at 7: #\n", "  # 12:30 snack\n", "  # a: #\n", "  # 7:\n", "  #7:#\n", "  # :7\n", "  ## 5:5 ##\n", "  # 50%\n"}[rapid.IntRange(0, 15).Draw(t, "dn")]
		case 24:
			name = "many-records"
			// more records than any read-ahead or batch size a command may use
			nrec := []int{1030, 1500, 2100, 4200}[rapid.IntRange(0, 3).Draw(t, "nrec")]
			for j := 0; j < nrec; j++ {
				if isLog {
					lines = append(lines, vFmtDay(j, "")+":\n", fmt.Sprintf("  many%d: 1\n", j%7))
				} else {
					lines = append(lines, fmt.Sprintf("many%d:\n", j), "  x: 1\n")
				}
			}
		case 28:
			name = "not-a-number-amounts"
			// NaN and infinite amounts of a name the file already mentions (orderings and sums that assume x == x)
			names := []string{"x"}
			seenNm := map[string]bool{"x": true}
			for _, ln := range lines {
				if len(names) >= 9 || (!strings.HasPrefix(ln, " ") && !strings.HasPrefix(ln, "\t")) {
					continue
				}
				nm := strings.Trim(strings.TrimRight(ln, "\r\n"), " \t-\"")
				if j := strings.LastIndex(nm, ":"); j > 0 {
					nm = strings.Trim(nm[:j], " \t\"")
				}
				if nm != "" && !strings.HasPrefix(nm, "#") && !seenNm[nm] {
					seenNm[nm] = true
					names = append(names, nm)
				}
			}
			if isLog {
				lines = append(lines, "2021/01/06:\n")
				for _, nm := range names {
					lines = append(lines, "  "+nm+": NaN\n")
				}
			} else {
				for i, nm := range names {
					lines = append(lines, fmt.Sprintf("nan~rec%d:\n", i), "  "+nm+": NaN\n", fmt.Sprintf("nan~two%d:\n", i), "  "+nm+": NaN\n", fmt.Sprintf("  nan~rec%d: 2\n", i), fmt.Sprintf("inf~rec%d:\n", i), "  "+nm+": Inf\n", "  "+nm+": -Inf\n")
				}
			}
		case 27:
			name = "comb-of-categories"
			// category paths that fork on every one of 33 .. 120 levels (c1/x, c1/c2/x, ...): deeper than any table of
			// indentations
			depth := []int{33, 34, 64, 65, 120}[rapid.IntRange(0, 4).Draw(t, "combdepth")]
			if isLog {
				lines = append(lines, "2021/01/05:\n")
			} else {
				lines = append(lines, "comb:\n")
			}
			path := ""
			for j := 1; j <= depth; j++ {
				path += fmt.Sprintf("c%d/", j)
				lines = append(lines, fmt.Sprintf("  %sx: %d\n", path, j%5+1))
			}
		case 25:
			name = "heading-date-variant"
			// a heading that almost is a date: one field out of range, of another width, in other digits, padded
			k := pick()
			for j := k; j >= 0; j-- {
				if len(lines[j]) > 0 && lines[j][0] != ' ' && lines[j][0] != '\t' && lines[j][0] != '#' {
					k = j
					break
				}
			}
			lines[k] = c08NearDates[rapid.IntRange(0, len(c08NearDates)-1).Draw(t, "neardate")] + ":\n"
		case 26:
			name = "digit-change"
			// one digit of one line becomes another digit
			k := pick()
			var at []int
			for j := 0; j < len(lines[k]); j++ {
				if lines[k][j] >= '0' && lines[k][j] <= '9' {
					at = append(at, j)
				}
			}
			if len(at) > 0 {
				j := at[rapid.IntRange(0, len(at)-1).Draw(t, "digitat")]
				lines[k] = lines[k][:j] + string(rune('0'+rapid.IntRange(0, 9).Draw(t, "digit"))) + lines[k][j+1:]
			}
		case 23:
			name = "degenerate-entry"
			k := pick()
			lines[k] = lines[k] + []string{"  :\n", "  : 1\n", "  - : 1\n", "  \"\": 1\n", "  -\n", "  - -\n", "  a:  \n", "  \t1\n", "- 1\n", "  a: 1 2\n"}[rapid.IntRange(0, 9).Draw(t, "de")]
		}
		*muts = append(*muts, name)
	}
	return []byte(strings.Join(lines, ""))
}

// c08Healthy: the case at hand keeps both files intact and every global option valid, so that the command gets to
// its report (crashes on well-formed input are as much in scope as crashes on broken input); set by genC08.
var c08Healthy bool

func genC08Args(t *rapid.T, s vScenario) ([]string, map[string]string) {
	var g []string // global flags
	env := map[string]string{}
	x := "x"
	if len(s.Basics) > 0 {
		x = s.Basics[rapid.IntRange(0, len(s.Basics)-1).Draw(t, "x")]
	}
	file := func(label, def string) string {
		if c08Healthy {
			return def
		}
		switch rapid.IntRange(0, 13).Draw(t, label) {
		case 12:
			return []string{def + "/x", "@LOOP@", "@DIR@/" + strings.Repeat("n", 300)}[rapid.IntRange(0, 2).Draw(t, label+".odd")]
		case 0:
			return "@MISSING@"
		case 1:
			return "@DIR@"
		case 2:
			return ""
		case 3:
			return "/dev/null"
		default:
			return def
		}
	}
	bookF, logF := file("bookfile", "@BOOK@"), file("logfile", "@LOG@")
	switch rapid.IntRange(0, 3).Draw(t, "bookvia") {
	case 0:
		g = append(g, "-d", bookF)
	case 1:
		g = append(g, "--database="+bookF)
	case 2:
		env["HR_DATABASE"] = bookF
	default:
		g = append(g, "--database", bookF)
	}
	switch rapid.IntRange(0, 2).Draw(t, "logvia") {
	case 0:
		g = append(g, "-l", logF)
	case 1:
		g = append(g, "--logfile="+logF)
	default:
		env["HR_LOGFILE"] = logF
	}
	date := func(label string) string {
		if c08Healthy {
			return []string{"2021/01/01", "2021/01/02", "2021/01/03", "2021/01/10", "today", "yesterday", "last7"}[rapid.IntRange(0, 6).Draw(t, label)]
		}
		return c08Dates[rapid.IntRange(0, len(c08Dates)-1).Draw(t, label)]
	}
	if rapid.IntRange(0, 2).Draw(t, "today") > 0 {
		g = append(g, "--today", []string{"2021/01/10", "2021/01/10", "2021/01/10", date("todayv")}[rapid.IntRange(0, 3).Draw(t, "todayk")])
	}
	if rapid.IntRange(0, 3).Draw(t, "gb") == 0 {
		g = append(g, "-b", date("gbv"))
	}
	if rapid.IntRange(0, 3).Draw(t, "ge") == 0 {
		g = append(g, "--end="+date("gev"))
	}
	if !c08Healthy && rapid.IntRange(0, 3).Draw(t, "md") == 0 {
		v := []string{"0", "1", "2", "10", "1000", "-1", "100000000", "abc", "", "4294967296", "4611686018427387904", "9223372036854775807"}[rapid.IntRange(0, 11).Draw(t, "mdv")]
		if rapid.Bool().Draw(t, "mdenv") {
			env["HR_MAXDEPTH"] = v
		} else {
			g = append(g, "--maxdepth", v)
		}
	}
	if !c08Healthy && rapid.IntRange(0, 4).Draw(t, "df") == 0 {
		v := c08DateFormats[rapid.IntRange(0, len(c08DateFormats)-1).Draw(t, "dfv")]
		if rapid.Bool().Draw(t, "dfenv") {
			env["HR_DATE_FORMAT"] = v
		} else {
			g = append(g, "--date-format", v)
		}
	}
	if !c08Healthy && rapid.IntRange(0, 5).Draw(t, "nodb") == 0 {
		g = append(g, "--no-database")
	}
	if rapid.IntRange(0, 3).Draw(t, "nocolor") == 0 {
		g = append(g, "--no-color")
	}
	if !c08Healthy && rapid.IntRange(0, 9).Draw(t, "config") == 0 {
		// also paths whose stat fails for another reason than "does not exist": through a regular file, too long, a dangling
		// or self-referring link is made by the checker under the name @LOOP@
		g = append(g, "--config", []string{"@MISSING@", "@DIR@", "@BOOK@", "/dev/null", "", "@LOG@/config", "@BOOK@/a/b", "@DIR@/" + strings.Repeat("n", 300), strings.Repeat("p/", 3000) + "x", "@LOOP@", "@LOOP@/x"}[rapid.IntRange(0, 10).Draw(t, "configv")])
	}
	if !c08Healthy && rapid.IntRange(0, 19).Draw(t, "unknown") == 0 {
		g = append(g, []string{"--nonsense", "-z", "--", "-", "--begin"}[rapid.IntRange(0, 4).Draw(t, "unknownv")])
	}
	var c []string
	subPeriod := func() {
		if rapid.IntRange(0, 3).Draw(t, "sb") == 0 {
			c = append(c, "-b", date("sbv"))
		}
		if rapid.IntRange(0, 3).Draw(t, "se") == 0 {
			c = append(c, "-e", date("sev"))
		}
	}
	regexes := []string{".", "a", "(", "[", "*", "\\", "(?P<n>", "a{1000000}", "", "^$", "\xff", "(a|b)*c"}
	switch rapid.IntRange(0, 17).Draw(t, "cmd") {
	case 0, 1:
		c = append(c, []string{"reg", "register"}[rapid.IntRange(0, 1).Draw(t, "alias")])
		subPeriod()
		for _, fl := range []string{"--csv", "--no-color", "--no-totals", "--totals-only", "--shorten", "--use-old-reg-reporter", "-g"} {
			if rapid.IntRange(0, 4).Draw(t, "regflag") == 0 {
				c = append(c, fl)
			}
		}
		if rapid.IntRange(0, 3).Draw(t, "oldshorten") == 0 {
			c = append(c, "--use-old-reg-reporter", "--shorten")
		}
		switch rapid.IntRange(0, 6).Draw(t, "regmode") {
		case 6: // the element written the way a file would write it: quoted, with the colon, padded
			c = append(c, "-s", []string{x + ":", "\"" + x + "\"", " " + x, x + " ", "\"" + x + "\":", "\t" + x, x + "-"}[rapid.IntRange(0, 6).Draw(t, "decorated")])
			if rapid.Bool().Draw(t, "decoratedg") {
				c = append(c, "-g")
			}
		case 0:
			c = append(c, "-s", x)
		case 1:
			c = append(c, "--single-element="+x, "--group-food")
		case 2:
			c = append(c, "-f", regexes[rapid.IntRange(0, len(regexes)-1).Draw(t, "re")])
		case 3:
			c = append(c, "--internal-template-name", []string{"left-aligned", "default", "nope", ""}[rapid.IntRange(0, 3).Draw(t, "tpl")])
		case 4:
			c = append(c, "-s") // missing argument
		}
	case 2, 3:
		c = append(c, []string{"bal", "balance"}[rapid.IntRange(0, 1).Draw(t, "alias")])
		subPeriod()
		for _, fl := range []string{"-c", "--collapse", "--collapse-last"} {
			if rapid.IntRange(0, 2).Draw(t, "balflag") == 0 {
				c = append(c, fl)
			}
		}
		if rapid.Bool().Draw(t, "bals") {
			c = append(c, "-s", []string{x, x, x, x + ":", "\"" + x + "\"", " " + x}[rapid.IntRange(0, 5).Draw(t, "balsv")])
		}
	case 4:
		c = append(c, "lint")
		if rapid.Bool().Draw(t, "silent") {
			c = append(c, "-s")
		}
		if rapid.IntRange(0, 9).Draw(t, "noarg") != 0 {
			c = append(c, []string{"@LOG@", "@BOOK@", "@MISSING@", "@DIR@", "/dev/null"}[rapid.IntRange(0, 4).Draw(t, "lintfile")])
		}
	case 5:
		c = append(c, "report", "element-total")
		if rapid.Bool().Draw(t, "desc") {
			c = append(c, "--desc")
		}
		if rapid.IntRange(0, 9).Draw(t, "noarg") != 0 {
			c = append(c, []string{x, x, x, x + ":", "\"" + x + "\"", " " + x}[rapid.IntRange(0, 5).Draw(t, "etv")])
		}
	case 6:
		c = append(c, "report", "unresolved")
	case 7:
		c = append(c, "report", "quantity")
		if rapid.Bool().Draw(t, "desc") {
			c = append(c, "--desc")
		}
	case 8:
		c = append(c, "report", "totals")
	case 9:
		c = append(c, "csv", "log")
		subPeriod()
	case 10:
		c = append(c, "csv", "database")
	case 11:
		c = append(c, "csv", "database-resolved")
	case 12:
		c = append(c, "stats")
	case 13:
		c = append(c, "summary")
		if rapid.IntRange(0, 9).Draw(t, "noarg") != 0 {
			c = append(c, date("sumdate"))
		}
	case 14:
		c = append(c, "print")
		subPeriod()
	case 15:
		c = append(c, []string{"report", "csv", "gen", "help", "nosuchcommand", "", "--help", "--version"}[rapid.IntRange(0, 7).Draw(t, "bare")])
	case 16:
		c = append(c, "gen", []string{"man", "markdown"}[rapid.IntRange(0, 1).Draw(t, "gen")])
	default:
		// no command at all
	}
	// one option in four cases from the program's own flag definitions (read at run time: whatever boolean options the
	// tree under test declares, also ones this file does not name), as flag or through its environment variable
	if rapid.IntRange(0, 3).Draw(t, "surface") == 0 {
		var path []string
		if len(c) > 0 {
			w := c[0]
			path = []string{w}
			if (w == "csv" || w == "report") && len(c) > 1 {
				path = append(path, c[1])
			}
		}
		if opts := vSurfaceBools(path); len(opts) > 0 {
			o := opts[rapid.IntRange(0, len(opts)-1).Draw(t, "surfacei")]
			switch o.Where {
			case "global":
				g = append(g, o.Name)
			case "command":
				c = append(append(append([]string{}, c[:len(path)]...), o.Name), c[len(path):]...)
			case "env":
				env[o.Name] = []string{"1", "true", "0", "yes", ""}[rapid.IntRange(0, 4).Draw(t, "surfaceenv")]
			}
		}
	}
	return append(g, c...), env
}

func genC08(t *rapid.T) c08Case {
	exact := rapid.Bool().Draw(t, "exact")
	lo := vLayoutOpts{EOL: []string{"", "\r\n", "mixed"}[rapid.IntRange(0, 2).Draw(t, "eol")]}
	s := vGenScenario(t, vScenOpts{Paths: rapid.Bool().Draw(t, "paths"), MinDays: 0, MaxDays: 4, MaxEntries: 4, MaxRecipes: 5, Exact: &exact, Layout: &lo, Notes: true})
	var c c08Case
	c08Healthy = rapid.IntRange(0, 3).Draw(t, "healthy") == 0
	defer func() { c08Healthy = false }()
	if c08Healthy {
		c.Book, c.Log = []byte(s.Book.Render()), []byte(s.Log.Render())
		c.Muts = append(c.Muts, "healthy")
	} else {
		c.Book = c08MutateLines(t, s.Book.Render(), false, &c.Muts)
		c.Log = c08MutateLines(t, s.Log.Render(), true, &c.Muts)
	}
	c.Args, c.Env = genC08Args(t, s)
	c.Bin = rapid.IntRange(0, 14).Draw(t, "bin") == 0
	return c
}

// ---------------------------------------------------------------------------
// very long chains of recipes (no cycle): the depth limit must answer, not the stack

type c08DeepCase struct {
	Links int `json:"links"`
	Cmd   int `json:"cmd"`
}

var c08DeepCmds = [][]string{{"csv", "database-resolved"}, {"reg", "--no-color"}, {"report", "element-total", "x"}, {"bal", "-s", "x"}}

func checkC08Deep(c c08DeepCase, ctx *vCtx) *vFailure {
	var sb strings.Builder
	for i := 0; i < c.Links; i++ {
		fmt.Fprintf(&sb, "link%d:\n  link%d: 1\n", i, i+1)
	}
	fmt.Fprintf(&sb, "link%d:\n  x: 1\n", c.Links)
	bp := vWriteFile("c08-deep-book.yaml", sb.String())
	lp := vWriteFile("c08-deep-log.yaml", "2021/01/01:\n  link0: 1\n")
	cmd := c08DeepCmds[c.Cmd%len(c08DeepCmds)]
	ctx.NonTrivial(true)
	ctx.Labelf("links=%d", c.Links)
	r := vRunApp(vInvocation{Args: append([]string{"--today", vToday, "-d", bp, "-l", lp}, cmd...)})
	ctx.Run(1)
	if r.Panic != "" {
		return vFailf("%v on a chain of %d recipes panics: %s", cmd, c.Links, vTrunc(r.Panic, 1200))
	}
	if !r.Failed || !vIsDepthError(r.Err) {
		return vFailf("%v on a chain of %d recipes under the default depth limit: failed=%v, error %q (expected the maximum-depth error)", cmd, c.Links, r.Failed, vTrunc(r.Err, 300))
	}
	return nil
}

// ---------------------------------------------------------------------------
// the process environment: no HOME, no USER, a user id without an entry in the user database (a container started with
// --user 54321): the program still answers with a report or an error, never with a crash

type c08EnvCase struct {
	UID  int      `json:"uid"`  // 0 = the current user
	Env  []string `json:"env"`  // the whole environment of the process
	Args []string `json:"args"` // @BOOK@ / @LOG@ are replaced
}

func checkC08Env(c c08EnvCase, ctx *vCtx) *vFailure {
	bp := vWriteFile("c08-env-book.yaml", "meal:\n  x: 2\n")
	lp := vWriteFile("c08-env-log.yaml", "2021/01/01:\n  meal: 1\n")
	_ = os.Chmod(bp, 0o644)
	_ = os.Chmod(lp, 0o644)
	args := c08Subst(c.Args, bp, lp)
	cmd := exec.Command(vRealBin, args...)
	cmd.Env = append([]string{}, c.Env...)
	cmd.Dir = "/"
	if c.UID != 0 {
		cmd.SysProcAttr = &syscall.SysProcAttr{Credential: &syscall.Credential{Uid: uint32(c.UID), Gid: uint32(c.UID)}}
	}
	var so, se bytes.Buffer
	cmd.Stdout, cmd.Stderr = &so, &se
	if err := cmd.Start(); err != nil {
		vFault("cannot start the real binary (uid %d): %v", c.UID, err)
	}
	done := make(chan error, 1)
	go func() { done <- cmd.Wait() }()
	var werr error
	select {
	case werr = <-done:
	case <-time.After(30 * time.Second):
		_ = cmd.Process.Kill()
		<-done
		vHang("%q with environment %q under uid %d did not terminate within 30 s", c.Args, c.Env, c.UID)
	}
	ctx.Run(1)
	ctx.NonTrivial(true)
	ctx.Labelf("uid=%d", c.UID)
	if ee, ok := werr.(*exec.ExitError); ok {
		if ws, ok := ee.Sys().(syscall.WaitStatus); ok && ws.Signaled() {
			return vFailf("%q with environment %q under uid %d is killed by signal %v", c.Args, c.Env, c.UID, ws.Signal())
		}
	}
	if strings.Contains(se.String(), "panic:") || strings.Contains(se.String(), "goroutine ") || strings.Contains(se.String(), "fatal error:") {
		return vFailf("%q with environment %q under uid %d crashes: %s", c.Args, c.Env, c.UID, vTrunc(se.String(), 1200))
	}
	if werr != nil && strings.TrimSpace(se.String()) == "" && strings.TrimSpace(so.String()) == "" {
		return vFailf("%q with environment %q under uid %d fails without a message", c.Args, c.Env, c.UID)
	}
	return nil
}

func TestVerifC08Env(t *testing.T) {
	var space []c08EnvCase
	for _, uid := range []int{0, 54321} {
		for _, env := range [][]string{{}, {"PATH=/usr/bin:/bin"}, {"PATH=/usr/bin:/bin", "HOME=/nonexistent"}, {"PATH=/usr/bin:/bin", "USER=nobody"}, {"HOME="}, {"PATH=/usr/bin:/bin", "HOME=/tmp", "USER=someone", "TZ=Nowhere/Atall"}} {
			for _, args := range [][]string{{"--version"}, {"-d", "@BOOK@", "-l", "@LOG@", "reg"}, {"-d", "@BOOK@", "-l", "@LOG@", "stats"}, {"reg"}, {"--help"}} {
				space = append(space, c08EnvCase{UID: uid, Env: env, Args: args})
			}
		}
	}
	vEnum(t, "C08", "c08.env",
		"the real binary under the current user and under uid 54321 (no entry in the user database) with an empty environment, without HOME, without USER, with an empty HOME and with an unknown TZ, five command lines; no signal, no runtime trace, a message on failure",
		fmt.Sprintf("%d combinations", len(space)), len(space), func(i int) c08EnvCase { return space[i] }, checkC08Env)
}

func TestVerifC08Deep(t *testing.T) {
	links := []int{20000, 200000}
	if vThorough() {
		links = append(links, 1000000)
	}
	var space []c08DeepCase
	for _, l := range links {
		for ci := range c08DeepCmds {
			space = append(space, c08DeepCase{Links: l, Cmd: ci})
		}
	}
	vEnum(t, "C08", "c08.deep",
		"acyclic chains of 20 000 and 200 000 (thorough: 1 000 000) recipes under the default depth limit, four resolving commands: the answer is the maximum-depth error; a crash of the process (stack exhaustion cannot be recovered) is attributed to the journaled case by the driver",
		fmt.Sprintf("%d (length, command) combinations", len(space)), len(space), func(i int) c08DeepCase { return space[i] }, checkC08Deep)
}

func init() {
	vRegister("C08", "c08.random", checkC08)
	vRegister("C08", "c08.deep", checkC08Deep)
	vRegister("C08", "c08.env", checkC08Env)
}

func TestVerifC08Random(t *testing.T) {
	vRapid(t, "C08", "c08.random",
		"valid books/logs, one case in four left intact with valid global options (a crash on well-formed input counts as much), the others with 0-6 grammar-aware mutations per file (27 kinds: a heading that almost is a date (month or day 00, 13, 32, 30 February, other widths, other digits, padding), one digit changed into another, 1030-4200 appended records, degenerate notes and entries, truncated line, dropped value, NaN/Inf/1e400/hex/empty numbers, stray separators, invalid UTF-8, NUL, BOM, CR-only, 70 KiB line, empty file, comments only, entries before any heading, duplicate headings, cycles of length 1/2/6, chains 12/300/2000 deep, 1e308 values, 1000x repeated lines, 500-entry recipes) x every command and sub-command with drawn flag shapes (short/long/= forms, env vs flag, global vs sub-command periods from a dictionary of dates, keywords, natural-language phrases and garbage, --maxdepth 0..1e8 and 2^32, 2^62, 2^63-1 (a limit set to switch the limit off), odd --date-format, invalid regexps, --no-database, missing paths, directories, missing arguments, unknown flags); in process (recovered panic = failure, 60 s watchdog) and 1/15 through the real binary (no signal, no runtime trace, same verdict, message on failure); non-trivial = both files non-empty and a command given (distinct by files, arguments and environment)",
		vBudget(40000, 480000), genC08, checkC08)
}
