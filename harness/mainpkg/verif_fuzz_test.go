//go:build go1.21

package main

// Native coverage-guided fuzz targets (thorough tier only). The semantic
// oracle is inside the target: either the same rapid property driven by the
// fuzzer's bytes (rapid.MakeFuzz), or a byte-level data provider for C08.
// A failing input is saved as the usual fail-<kind>.json (so it replays without
// the fuzzer) by the worker that found it; Go's own minimiser re-runs the
// target, so the last file written is the minimised case.

import (
	"encoding/json"
	"os"
	"path/filepath"
	"testing"

	"pgregory.net/rapid"
)

func vFuzzProp[C any](f *testing.F, property, kind string, gen func(*rapid.T) C, check func(C, *vCtx) *vFailure) {
	for _, seed := range [][]byte{{}, {0}, {1, 2, 3, 4, 5, 6, 7, 8}, make([]byte, 64), vRepeatByte(0xff, 64), vRepeatByte(0x55, 256), []byte("hranoprovod fuzz seed 0123456789 abcdefghijklmnopqrstuvwxyz")} {
		f.Add(seed)
	}
	ts := &vTestStats{NonTrivial: map[string]bool{}, Labels: map[string]int{}, Excluded: map[string]int{}}
	f.Fuzz(rapid.MakeFuzz(func(t *rapid.T) {
		c := gen(t)
		fl, fault := vCheckOne(property, kind, c, ts, true, check)
		if fault {
			t.Skip("harness fault")
		}
		if fl != nil {
			t.Fatalf("%s", fl.Msg)
		}
	}))
}

func vRepeatByte(b byte, n int) []byte {
	out := make([]byte, n)
	for i := range out {
		out[i] = b
	}
	return out
}

func FuzzVerifC04(f *testing.F) { vFuzzProp(f, "C04", "c04.random", genC04, checkC04) }
func FuzzVerifC09(f *testing.F) { vFuzzProp(f, "C09", "c09.random", genC09, checkC09) }
func FuzzVerifC13(f *testing.F) { vFuzzProp(f, "C13", "c13.random", genC13, checkC13) }
func FuzzVerifC14(f *testing.F) { vFuzzProp(f, "C14", "c14.random", genC14, checkC14) }

// ---------------------------------------------------------------------------
// C08 byte-level target: data provider over the fuzzer's bytes

var c08FuzzCmds = [][]string{
	{"reg"}, {"reg", "--use-old-reg-reporter"}, {"reg", "--internal-template-name", "left-aligned"}, {"reg", "-s", "x"}, {"reg", "-s", "x", "-g"}, {"reg", "-f", "."},
	{"bal"}, {"bal", "-c"}, {"bal", "--collapse-last"}, {"bal", "-s", "x"},
	{"report", "totals"}, {"report", "quantity"}, {"report", "unresolved"}, {"report", "element-total", "x"},
	{"csv", "log"}, {"csv", "database"}, {"csv", "database-resolved"},
	{"summary", "2021/01/01"}, {"print"}, {"stats"}, {"lint", "@LOG@"}, {"lint", "@BOOK@"},
}

func FuzzVerifC08(f *testing.F) {
	add := func(book, log string, cmd, flags byte) { f.Add([]byte(book), []byte(log), cmd, flags) }
	add("", "", 0, 0)
	add("a:\n  x: 1\n", "2021/01/01:\n  a: 1\n", 0, 0)
	add("a:\n  bad\n", "2021/01/01:\n  a: 1\n", 15, 0)
	add("a:\n  a: 1\n", "2021/01/01:\n  a: NaN\n", 16, 1)
	add("a:\n  b: 1e400\nb:\n  a: Inf\n", "2021/01/01:\n  # note\n  a: -0\n", 9, 3)
	add("\xef\xbb\xbfa:\r\n\t- \"x\": 1\r\n", "2021/01/01:\n  #\n  a/b/c: 1\n  a/b/d: 2\n", 7, 2)
	// hostile constants the mutator does not find on its own in minutes: long runs of UTF-8 continuation bytes where a
	// value is expected, a heading that almost is a date, a name of several hundred bytes mentioned twice
	add("a:\n  x: "+string(vRepeatByte(0x80, 120))+"1\n", "2021/01/01:\n  a: "+string(vRepeatByte(0xbf, 300))+"\n", 0, 0)
	add("a:\n  x: 1\n", "2021/00/10:\n  a: 1\n2021/13/01:\n  a: 1\n2021/02/30:\n  a: 1\n", 10, 0)
	add("a:\n  x: 1\n  y: 2\nb:\n  x: 1\n", "2021/01/01:\n  a: 1\n  b: 1\n", 3, 1)
	add("a:\n  x: 1\n", "2021/01/01:\n  "+string(vRepeatByte('n', 300))+": 1\n  "+string(vRepeatByte('n', 300))+": 2\n", 9, 0)
	repo := os.Getenv("VERIF_REPO_DIR")
	for _, p := range []string{filepath.Join(repo, "examples/food.yaml"), filepath.Join(repo, "cmd/hranoprovod-cli/internal/testutils/testAssets/food.yaml")} {
		if b, err := os.ReadFile(p); err == nil {
			if l, err := os.ReadFile(filepath.Join(filepath.Dir(p), "log.yaml")); err == nil {
				add(string(b), string(l), 0, 0)
			}
		}
	}
	ts := &vTestStats{NonTrivial: map[string]bool{}, Labels: map[string]int{}, Excluded: map[string]int{}}
	f.Fuzz(func(t *testing.T, book, log []byte, cmd, flags byte) {
		if len(book) > 1<<16 || len(log) > 1<<16 {
			t.Skip()
		}
		c := c08Case{Book: book, Log: log, Muts: []string{"fuzz"}}
		c.Args = []string{"--today", "2021/01/10", "-d", "@BOOK@", "-l", "@LOG@"}
		if flags&1 != 0 {
			c.Args = append(c.Args, "--maxdepth", "2")
		}
		if flags&2 != 0 {
			c.Args = append(c.Args, "--no-color")
		}
		if flags&4 != 0 {
			c.Args = append(c.Args, "-b", "2021/01/01", "-e", "2021/01/31")
		}
		if flags&8 != 0 {
			c.Args = append(c.Args, "--date-format", "2006-01-02")
		}
		c.Args = append(c.Args, c08FuzzCmds[int(cmd)%len(c08FuzzCmds)]...)
		fl, fault := vCheckOne("C08", "c08.random", c, ts, true, checkC08)
		if fault {
			t.Skip("harness fault")
		}
		if fl != nil {
			t.Fatalf("%s", fl.Msg)
		}
	})
}

var _ = json.Marshal
