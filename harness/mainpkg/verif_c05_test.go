//go:build go1.21

package main

// C05 — every report is a pure function of its inputs.

import (
	"fmt"
	"regexp"
	"strings"
	"testing"
	"time"

	"pgregory.net/rapid"
)

type c05Case struct {
	S        vScenario  `json:"s"`
	MaxDepth int        `json:"maxdepth"`
	Element  string     `json:"element"`
	Food     string     `json:"food"`
	Extra    [][]string `json:"extra,omitempty"` // random combinations of the options of reg and bal (beside the fixed list)
	Bin      bool       `json:"bin"`
}

func c05Commands(c c05Case) [][]string {
	x := c.Element
	day := "2021/01/01"
	if len(c.S.Log.Recs) > 0 {
		day = c.S.Log.Recs[0].Head
	}
	return append(append([][]string{}, c.Extra...), [][]string{
		{"reg"},
		{"reg", "--no-color"},
		{"reg", "--internal-template-name", "left-aligned"},
		{"reg", "--use-old-reg-reporter"},
		{"reg", "--totals-only"},
		{"reg", "-s", x},
		{"reg", "-s", x, "-g"},
		{"reg", "-f", c.Food},
		{"bal"},
		{"bal", "-c"},
		{"bal", "--collapse-last"},
		{"bal", "-s", x},
		{"report", "unresolved"},
		{"report", "quantity"},
		{"report", "quantity", "--desc"},
		{"report", "totals"},
		{"report", "element-total", x},
		{"report", "element-total", "--desc", x},
		{"csv", "log"},
		{"csv", "database"},
		{"csv", "database-resolved"},
		{"summary", day},
		{"print"},
		{"stats"},
		{"lint", "@LOG@"},
		{"lint", "@BOOK@"},
	}...)
}

// vGenRegCombo draws a random combination of the options of `reg` (any subset, in any order; options that exclude
// each other in spirit may meet: whatever the program makes of them, it must make the same of them on every run).
func vGenRegCombo(t *rapid.T, x, food string, days []string, label string) []string {
	day := func(l string) string {
		if len(days) == 0 {
			return "2021/01/01"
		}
		return days[rapid.IntRange(0, len(days)-1).Draw(t, l)]
	}
	tpl := []string{"", "default", "left-aligned", "l", "left", "d", "nosuch"}
	opts := [][]string{{"--no-totals"}, {"--totals-only"}, {"--no-color"}, {"--shorten"}, {"--use-old-reg-reporter"}, {"--csv"},
		{"--internal-template-name", tpl[rapid.IntRange(0, len(tpl)-1).Draw(t, label+".tpl")]},
		{"-s", x}, {"-g"}, {"-f", food}, {"-b", day(label + ".b")}, {"-e", day(label + ".e")}}
	perm := rapid.Permutation(vIota(len(opts))).Draw(t, label+".order")
	n := rapid.IntRange(2, 5).Draw(t, label+".n")
	out := []string{"reg"}
	for _, i := range perm[:n] {
		out = append(out, opts[i]...)
	}
	return out
}

func vGenBalCombo(t *rapid.T, x string, days []string, label string) []string {
	day := func(l string) string {
		if len(days) == 0 {
			return "2021/01/01"
		}
		return days[rapid.IntRange(0, len(days)-1).Draw(t, l)]
	}
	opts := [][]string{{"-c"}, {"--collapse-last"}, {"-s", x}, {"-b", day(label + ".b")}, {"-e", day(label + ".e")}}
	perm := rapid.Permutation(vIota(len(opts))).Draw(t, label+".order")
	n := rapid.IntRange(2, 4).Draw(t, label+".n")
	out := []string{"bal"}
	for _, i := range perm[:n] {
		out = append(out, opts[i]...)
	}
	return out
}

var c05ClockPrefix = regexp.MustCompile(`(?m)^\d{4}/\d\d/\d\d \d\d:\d\d:\d\d `)

func c05Shape(c c05Case) (labels []string, nt bool) {
	isDef := map[string]bool{}
	for _, r := range c.S.Book.Parsed() {
		isDef[r.Head] = true
	}
	unresolved := map[string]bool{}
	qty := map[string]vVal{}
	for _, rec := range c.S.Log.Parsed() {
		for _, m := range vMergeEntries(rec.Entries) {
			if !isDef[m.Name] {
				unresolved[m.Name] = true
			}
			cur, ok := qty[m.Name]
			if !ok {
				cur = vValZero()
			}
			qty[m.Name] = cur.Add(m.Q)
		}
	}
	if len(unresolved) >= 2 {
		labels = append(labels, "unresolved>=2")
		nt = true
	}
	seen := map[string]bool{}
	for _, v := range qty {
		k := v.V.FloatString(2)
		if seen[k] {
			labels = append(labels, "quantity-tie")
			nt = true
			break
		}
		seen[k] = true
	}
	res := vModelResolve(c.S.Book.Parsed())
	seen = map[string]bool{}
	for _, em := range res.Elems {
		if v, ok := em[c.Element]; ok {
			k := v.V.FloatString(2)
			if seen[k] {
				labels = append(labels, "element-total-tie")
				nt = true
				break
			}
			seen[k] = true
		}
	}
	if res.Cyclic {
		labels = append(labels, "cyclic")
		nt = true
	} else if res.HMax >= c.MaxDepth-1 && len(res.Elems) >= 2 {
		labels = append(labels, "depth-boundary")
		nt = true
	}
	if len(res.Elems) >= 9 || len(qty) >= 9 {
		labels = append(labels, "map>=9keys")
	}
	return
}

func checkC05(c c05Case, ctx *vCtx) *vFailure {
	vLocalChangedBy = ""
	labels, nt := c05Shape(c)
	for _, l := range labels {
		ctx.Label(l)
	}
	ctx.NonTrivial(nt)
	f := c.S.Write("c05")
	K := vPick(12, 40)
	firsts := map[int]vRun{}
	invs := map[int]vInvocation{}
	for ci, cmd := range c05Commands(c) {
		args := make([]string, len(cmd))
		for i, a := range cmd {
			a = strings.ReplaceAll(a, "@LOG@", f.Log)
			a = strings.ReplaceAll(a, "@BOOK@", f.Book)
			args[i] = a
		}
		inv := vInvocation{Args: append([]string{"--maxdepth", fmt.Sprint(c.MaxDepth)}, f.Args(args...)...)}
		var first vRun
		for k := 0; k < K; k++ {
			r := vRunApp(inv)
			ctx.Run(1)
			if r.Panic != "" {
				// crashes are C08's subject; here only determinism counts
				r.Err = "panic"
			}
			if k == 0 {
				first = r
				firsts[ci], invs[ci] = r, inv
				continue
			}
			if r.Stdout != first.Stdout || r.Failed != first.Failed || r.Err != first.Err {
				return vFailSig("C05/"+strings.Join(cmd[:vMin(2, len(cmd))], "-"), "%v: two runs with identical inputs differ.\n--- run 0: failed=%v err=%q\n%s\n--- run %d: failed=%v err=%q\n%s", cmd, first.Failed, first.Err, vTrunc(first.Stdout, 1500), k, r.Failed, r.Err, vTrunc(r.Stdout, 1500))
			}
		}
		if c.Bin {
			firstStderr := ""
			for j := 0; j < vPick(3, 8); j++ {
				r := vRunBin(inv, 30*time.Second)
				ctx.Run(1)
				if r.Exit == -999 {
					vHang("the real binary did not terminate within its time limit on %v", inv.Args)
				}
				// what a failing process says must not change from process to process either (the clock prefix of the
				// standard logger set aside)
				se := c05ClockPrefix.ReplaceAllString(r.Stderr, "")
				if j == 0 {
					firstStderr = se
				} else if se != firstStderr {
					return vFailSig("C05/"+strings.Join(cmd[:vMin(2, len(cmd))], "-"), "%v: two processes with identical inputs write different messages: %q and %q", cmd, firstStderr, se)
				}
				if r.Stdout != first.Stdout || r.Failed != first.Failed {
					return vFailSig("C05/"+strings.Join(cmd[:vMin(2, len(cmd))], "-"), "%v: a separate process gives a different result than the in-process run.\n--- in-process: failed=%v err=%q\n%s\n--- process %d: exit=%d stderr=%q\n%s", cmd, first.Failed, first.Err, vTrunc(first.Stdout, 1500), j, r.Exit, r.Stderr, vTrunc(r.Stdout, 1500))
				}
			}
		}
	}
	// what an earlier invocation of the same process was given must not matter: run something else under other settings
	// (every environment variable the program's flag definitions name, set to another valid value), then every command
	// once more under the original settings
	{
		other := vWriteFile("c05-other.yaml", "other:\n  z: 1\n")
		env := map[string]string{}
		for _, fl := range vSurface() {
			for _, e := range fl.Env {
				switch {
				case fl.Bool:
					env[e] = "1"
				case fl.Name == "maxdepth":
					env[e] = "1"
				case fl.Name == "date-format":
					env[e] = "02.01.2006"
				case fl.Name == "database", fl.Name == "logfile":
					env[e] = other
				}
			}
		}
		for _, pc := range [][]string{{"csv", "database-resolved"}, {"reg"}, {"bal"}, {"report", "totals"},
			// the same files under a depth limit of 1 (resolution fails as soon as a recipe is nested): a failed run must
			// leave nothing behind either
			{"-d", f.Book, "-l", f.Log, "csv", "database-resolved"}, {"-d", f.Book, "-l", f.Log, "reg"}, {"-d", f.Book, "-l", f.Log, "bal", "-s", c.Element},
			{"-d", f.Book, "-l", f.Log, "--maxdepth", "2", "report", "element-total", c.Element},
			// period values that are not in the date layout (phrases the program reads as natural language, or rejects)
			{"-d", f.Book, "-l", f.Log, "reg", "-b", "2 days ago"}, {"-d", f.Book, "-l", f.Log, "-e", "last monday", "bal"}, {"-d", f.Book, "-l", f.Log, "summary", "no such day"}} {
			_ = vRunApp(vInvocation{Args: pc, Env: env})
			ctx.Run(1)
		}
		cmds := c05Commands(c)
		for ci := 0; ci < len(cmds); ci++ {
			r := vRunApp(invs[ci])
			ctx.Run(1)
			if r.Panic != "" {
				r.Err = "panic"
			}
			first := firsts[ci]
			if r.Stdout != first.Stdout || r.Failed != first.Failed || r.Err != first.Err {
				return vFailSig("C05/state-between-invocations", "%v: the result changed after other invocations ran in the same process under other settings (environment %v).\n--- before: failed=%v err=%q\n%s\n--- after: failed=%v err=%q\n%s", cmds[ci], env, first.Failed, first.Err, vTrunc(first.Stdout, 1200), r.Failed, r.Err, vTrunc(r.Stdout, 1200))
			}
		}
		if vLocalChangedBy != "" {
			return vFailSig("C05/state-between-invocations", "the invocation %s changed the time zone of the process (time.Local): every later invocation in the same process reads and prints dates in another zone than its environment says", vLocalChangedBy)
		}
		ctx.Label("rerun-after-other-settings")
	}
	return nil
}

func vMin(a, b int) int {
	if a < b {
		return a
	}
	return b
}

func genC05(t *rapid.T) c05Case {
	vLongNameOneIn = 3 // names longer than the columns, among them pairs that look alike once shortened
	defer func() { vLongNameOneIn = 10 }()
	exact := rapid.IntRange(0, 3).Draw(t, "exact") > 0
	paths := rapid.Bool().Draw(t, "paths")
	s := vGenScenario(t, vScenOpts{Paths: paths, MinDays: 1, MaxDays: 4, MaxEntries: 8, MaxRecipes: 12, MaxDepth: 4, NUnknown: 6, Exact: &exact, Window: 3, Notes: true})
	c := c05Case{S: s, MaxDepth: rapid.IntRange(1, 6).Draw(t, "maxdepth"), Bin: rapid.IntRange(0, 49).Draw(t, "bin") == 0}
	c.Element = s.Basics[rapid.IntRange(0, len(s.Basics)-1).Draw(t, "el")]
	foods := append(append([]string{"a", "."}, s.Recipes...), s.Unknown...)
	c.Food = foods[rapid.IntRange(0, len(foods)-1).Draw(t, "food")]
	var days []string
	for _, r := range s.Log.Recs {
		days = append(days, r.Head)
	}
	for i := 0; i < 3; i++ {
		c.Extra = append(c.Extra, vGenRegCombo(t, c.Element, c.Food, days, fmt.Sprintf("regcombo%d", i)))
	}
	c.Extra = append(c.Extra, vGenBalCombo(t, c.Element, days, "balcombo"))
	// values whose sums depend on the order of the additions at the printed digit, near ties, huge values
	if !exact && rapid.IntRange(0, 2).Draw(t, "tricky") == 0 {
		tricky := []string{"0.005", "0.01", "0.15", "0.1", "0.3", "-0.4", "1e16", "1", "0.100", "0.104", "0.108", "0.5", "0.504", "0.508", "0.015", "2.675", "1e15", "-1e16"}
		for _, d := range []*vDoc{&c.S.Book, &c.S.Log} {
			for ri := range d.Recs {
				for li := range d.Recs[ri].Lines {
					if d.Recs[ri].Lines[li].Kind == vkEntry && rapid.IntRange(0, 1).Draw(t, "trickyhere") == 0 {
						d.Recs[ri].Lines[li].Num = tricky[rapid.IntRange(0, len(tricky)-1).Draw(t, "trickyv")]
					}
				}
			}
		}
	}
	if rapid.IntRange(0, 5).Draw(t, "baddate") == 0 {
		// one day of the log carries a heading that is not a date under the layout in force (and a note, like other
		// days): every command that walks the log fails there, each time with the same message after the same output
		j := rapid.IntRange(0, len(c.S.Log.Recs)-1).Draw(t, "baddatej")
		r := &c.S.Log.Recs[j]
		r.Head = []string{"2021/3/5", "2021/13/45", "2021-01-02", "yesterday", "2021/01/32", "21/01/02"}[rapid.IntRange(0, 5).Draw(t, "baddatev")]
		at := rapid.IntRange(0, len(r.Lines)).Draw(t, "baddatenoteat")
		note := vLine{Kind: vkNote, Name: "place", Text: "home", L: vLayout{Indent: "  ", EOL: "\n"}}
		if rapid.Bool().Draw(t, "baddatetext") {
			note = vLine{Kind: vkTNote, Text: "felt fine", L: vLayout{Indent: "  ", EOL: "\n"}}
		}
		r.Lines = append(r.Lines[:at], append([]vLine{note}, r.Lines[at:]...)...)
		c.S.Log.NoFinalNL = false
	}
	if rapid.IntRange(0, 5).Draw(t, "cycle") == 0 {
		plain := vLayout{Indent: "  ", Sep: ": ", EOL: "\n"}
		c.S.Book.Recs = append(c.S.Book.Recs,
			vRec{Head: "cyc~0", HL: vLayout{EOL: "\n"}, Lines: []vLine{{Kind: vkEntry, Name: "cyc~1", Num: "1", L: plain}}},
			vRec{Head: "cyc~1", HL: vLayout{EOL: "\n"}, Lines: []vLine{{Kind: vkEntry, Name: "cyc~0", Num: "2", L: plain}}})
		c.S.Book.NoFinalNL = false
		if rapid.Bool().Draw(t, "cyclepluschain") {
			// the same book also holds a chain longer than any limit drawn here: two reasons to refuse it, one message
			c.S.Book.Recs = append(c.S.Book.Recs, c11Chain("toodeep~", 12)...)
		}
	}
	if rapid.IntRange(0, 7).Draw(t, "overflow") == 0 {
		// quantities that are finite as written and overflow when multiplied out, in several recipes
		plain := vLayout{Indent: "  ", Sep: ": ", EOL: "\n"}
		big := "1" + strings.Repeat("0", 200)
		c.S.Book.Recs = append(c.S.Book.Recs,
			vRec{Head: "inf~base", HL: vLayout{EOL: "\n"}, Lines: []vLine{{Kind: vkEntry, Name: c.Element, Num: big, L: plain}}},
			vRec{Head: "inf~bowl", HL: vLayout{EOL: "\n"}, Lines: []vLine{{Kind: vkEntry, Name: "inf~base", Num: big, L: plain}}},
			vRec{Head: "inf~pot", HL: vLayout{EOL: "\n"}, Lines: []vLine{{Kind: vkEntry, Name: "inf~bowl", Num: "2", L: plain}, {Kind: vkEntry, Name: "inf~base", Num: "-" + big, L: plain}}})
		c.S.Book.NoFinalNL = false
		if len(c.S.Log.Recs) > 0 {
			r := &c.S.Log.Recs[rapid.IntRange(0, len(c.S.Log.Recs)-1).Draw(t, "overflowday")]
			r.Lines = append(r.Lines, vLine{Kind: vkEntry, Name: "inf~pot", Num: "1", L: plain}, vLine{Kind: vkEntry, Name: "inf~bowl", Num: "1", L: plain})
			c.S.Log.NoFinalNL = false
		}
	}
	return c
}

// ---------------------------------------------------------------------------
// targeted: sums and orders that depend on the order of float additions / comparisons

var c05Clusters = [][]string{
	{"0.005", "0.01", "0.15"},          // sum lands on a rounding half
	{"0.1", "0.3", "-0.4"},             // exact cancellation: 0.00 or -0.00
	{"1", "1e16", "1"},                 // absorption above 2^53
	{"0.100", "0.104", "0.108"},        // near ties, each < 0.005 apart, ends >= 0.005 apart
	{"0.5", "0.504", "0.508", "0.512"}, // a longer chain of near ties
	{"0.015", "0.025", "0.035", "0.045"},
	{"2.675", "1.005", "0.125", "0.375"},
	{"1e15", "0.3", "-1e15", "0.3"},
	{"0.1", "0.2", "0.3", "0.7", "-1.3"},
}

func genC05Sums(t *rapid.T) c05Case {
	plain := vLayout{Indent: "  ", Sep: ": ", EOL: "\n"}
	cl := c05Clusters[rapid.IntRange(0, len(c05Clusters)-1).Draw(t, "cluster")]
	n := rapid.IntRange(3, 9).Draw(t, "nrec")
	names := vGenNamePool(t, false, n, "name")
	var s vScenario
	s.Exact = false
	s.Basics = []string{"x", "y"}
	day := vRec{Head: "2021/01/01", HL: vLayout{EOL: "\n"}}
	day2 := vRec{Head: "2021/01/02", HL: vLayout{EOL: "\n"}}
	for i, nm := range names {
		if rapid.Bool().Draw(t, "aspath") {
			nm = nm + "/" + []string{"a", "b", "c"}[rapid.IntRange(0, 2).Draw(t, "leaf")]
			names[i] = nm
		}
		v := cl[rapid.IntRange(0, len(cl)-1).Draw(t, "v")]
		if i < len(cl) {
			v = cl[i] // make sure the whole cluster is present
		}
		lines := []vLine{{Kind: vkEntry, Name: "x", Num: v, L: plain}}
		if rapid.Bool().Draw(t, "y") {
			lines = append(lines, vLine{Kind: vkEntry, Name: "y", Num: cl[rapid.IntRange(0, len(cl)-1).Draw(t, "yv")], L: plain})
		}
		s.Book.Recs = append(s.Book.Recs, vRec{Head: nm, HL: vLayout{EOL: "\n"}, Lines: lines})
		s.Recipes = append(s.Recipes, nm)
		q := []string{"1", "1", "1", "2", "0.5"}[rapid.IntRange(0, 4).Draw(t, "q")]
		if rapid.IntRange(0, 3).Draw(t, "day2") == 0 {
			day2.Lines = append(day2.Lines, vLine{Kind: vkEntry, Name: nm, Num: q, L: plain})
		} else {
			day.Lines = append(day.Lines, vLine{Kind: vkEntry, Name: nm, Num: q, L: plain})
		}
	}
	if n > 1 {
		perm := rapid.Permutation(vIota(len(s.Book.Recs))).Draw(t, "decl")
		nr := make([]vRec, len(perm))
		for i, p := range perm {
			nr[i] = s.Book.Recs[p]
		}
		s.Book.Recs = nr
	}
	// chains of one-line recipes whose product lands on a rounding half (259 x 0.45 x 1.5 = 174.825): the order in which
	// the factors are multiplied shows in the last printed digit
	nchain := rapid.IntRange(0, 3).Draw(t, "nchain")
	for ci := 0; ci < nchain; ci++ {
		vals := [][3]string{{"259", "0.45", "1.5"}, {"3", "0.15", "0.7"}, {"33.333", "0.15", "1.5"}, {"7", "2.675", "0.3"}, {"1.1", "1.1", "1.1"}, {"0.1", "0.7", "1.5"}}[rapid.IntRange(0, 5).Draw(t, "chainv")]
		a, b, r := fmt.Sprintf("ch~%da", ci), fmt.Sprintf("ch~%db", ci), fmt.Sprintf("ch~%dr", ci)
		s.Book.Recs = append(s.Book.Recs,
			vRec{Head: r, HL: vLayout{EOL: "\n"}, Lines: []vLine{{Kind: vkEntry, Name: a, Num: vals[0], L: plain}}},
			vRec{Head: a, HL: vLayout{EOL: "\n"}, Lines: []vLine{{Kind: vkEntry, Name: b, Num: vals[1], L: plain}}},
			vRec{Head: b, HL: vLayout{EOL: "\n"}, Lines: []vLine{{Kind: vkEntry, Name: "x", Num: vals[2], L: plain}}})
		s.Recipes = append(s.Recipes, r)
		day.Lines = append(day.Lines, vLine{Kind: vkEntry, Name: r, Num: "1", L: plain})
	}
	s.Log = vDoc{Recs: []vRec{day, day2}}
	s.Days = []int{0, 1}
	return c05Case{S: s, MaxDepth: 10, Element: "x", Food: "."}
}

// ---------------------------------------------------------------------------
// both input files are malformed: which error a command reports (and that it reports one) must not vary from run to run

type c05BothBadCase struct {
	Lines   int `json:"lines"`   // lines per file
	BadAt   int `json:"badat"`   // permille of the file where the malformed line stands (log and book alike)
	Command int `json:"command"` // index into c05BothBadCmds
}

var c05BothBadCmds = [][]string{{"stats"}, {"reg"}, {"bal"}, {"report", "totals"}, {"summary", "2021/01/01"}, {"report", "unresolved"}}

func checkC05BothBad(c c05BothBadCase, ctx *vCtx) *vFailure {
	var lb, bb strings.Builder
	badLine := c.Lines * c.BadAt / 1000
	for i := 0; lb.Len() == 0 || i < c.Lines/2; i++ {
		lb.WriteString(vFmtDay(i%20000, "") + ":\n")
		if i == badLine/2 {
			lb.WriteString("  broken log entry\n")
		}
		fmt.Fprintf(&lb, "  food%d: 1\n", i%17)
		fmt.Fprintf(&bb, "food%d~%d:\n", i%17, i)
		if i == badLine/2 {
			bb.WriteString("  broken book entry\n")
		}
		fmt.Fprintf(&bb, "  x: %d\n", i%9+1)
	}
	lp, bp := vWriteFile("c05-bad-log.yaml", lb.String()), vWriteFile("c05-bad-book.yaml", bb.String())
	cmd := c05BothBadCmds[c.Command%len(c05BothBadCmds)]
	inv := vInvocation{Args: append([]string{"--today", vToday, "-d", bp, "-l", lp}, cmd...)}
	ctx.NonTrivial(true)
	ctx.Labelf("lines=%d", c.Lines)
	var first vRun
	K := vPick(30, 80)
	for k := 0; k < K; k++ {
		r := vRunApp(inv)
		ctx.Run(1)
		if r.Panic != "" {
			r.Err = "panic"
		}
		if !r.Failed {
			return vFailf("%v succeeds although both the log and the recipe book hold a malformed entry", cmd)
		}
		if k == 0 {
			first = r
			continue
		}
		if r.Err != first.Err || r.Stdout != first.Stdout {
			return vFailSig("C05/both-files-malformed", "%v with a malformed entry in the log and one in the recipe book (%d lines each): run 0 reports %q, run %d reports %q", cmd, c.Lines, vTrunc(first.Err, 200), k, vTrunc(r.Err, 200))
		}
	}
	return nil
}

func TestVerifC05BothBad(t *testing.T) {
	var space []c05BothBadCase
	for _, lines := range []int{6, 600, 6000, 40000} {
		for _, at := range []int{100, 900} {
			for ci := range c05BothBadCmds {
				if lines >= 40000 && !vThorough() && ci > 1 {
					continue
				}
				space = append(space, c05BothBadCase{Lines: lines, BadAt: at, Command: ci})
			}
		}
	}
	vEnum(t, "C05", "c05.bothbad",
		"a log and a recipe book of 6 .. 40 000 lines that each hold one malformed entry (early or late in the file), six commands that read both, 30 (thorough 80) runs each in one process: the same failure and the same error text on every run",
		fmt.Sprintf("%d (size, position, command) combinations", len(space)), len(space), func(i int) c05BothBadCase { return space[i] }, checkC05BothBad)
}

func init() {
	vRegister("C05", "c05.bothbad", checkC05BothBad)
	vRegister("C05", "c05.random", checkC05)
	vRegister("C05", "c05.sums", checkC05)
}

func TestVerifC05Sums(t *testing.T) {
	vRapid(t, "C05", "c05.sums",
		"targeted at float-order dependence: 3-9 recipes with distinct top-level names whose amounts of one element come from clusters chosen so that the printed result depends on the order of additions or comparisons (sums landing on a rounding half, exact cancellation, absorption above 2^53, chains of near ties < 0.005 apart), logged once each; the same 26 commands repeated 12/40 times; a difference between two runs is the violation",
		vBudget(480, 4000), genC05Sums, checkC05)
}

func TestVerifC05Random(t *testing.T) {
	vRapid(t, "C05", "c05.random",
		"random books (<=12 recipes, depth <=4, sometimes cyclic) and logs biased to ties (exact mode: small half-integer quantities), several unknown foods, repeated dates, --maxdepth 1..6 around h_max; 26 commands each run 12 (quick) / 40 (thorough) times in one process and, for 1/50 of the cases, 3/8 times as separate processes; all runs must agree byte for byte on stdout, failure and error text; non-trivial = >=2 unresolved foods, or a quantity tie, or an element-total tie, or h_max >= N-1 with >=2 recipes, or cyclic",
		vBudget(600, 4000), genC05, checkC05)
}
