//go:build go1.21

package main

// C09 — malformed entries are reported with their exact line by lint and every command.

import (
	"fmt"
	"strings"
	"testing"
	"time"

	"pgregory.net/rapid"
)

type c09Case struct {
	S      vScenario `json:"s"` // book and log; malformed lines are vkRaw lines inside them
	Silent bool      `json:"silent"`
	Period []string  `json:"period,omitempty"` // global -b/-e flags: a malformed entry must be reported even in a day outside the period
	Bin    bool      `json:"bin"`
}

type c09Planted struct {
	Line int
	Text string
}

// c09Find lists the planted (raw) lines of a doc with their 1-based physical line numbers.
func c09Find(d vDoc) (planted []c09Planted, fillerBeforeFirst bool) {
	n := 0
	filler := false
	for _, l := range d.Pre {
		n++
		_ = l
		filler = true
	}
	for _, r := range d.Recs {
		n++
		for _, l := range r.Lines {
			n++
			switch l.Kind {
			case vkRaw:
				if len(planted) == 0 {
					fillerBeforeFirst = filler
				}
				planted = append(planted, c09Planted{n, l.Text})
			case vkBlank, vkComment, vkNote, vkTNote:
				filler = true
			}
		}
	}
	return
}

var c09BadValues = []string{"bar", "1,5", "1.2.3", "5 g", "12abc", "--5", "1e", "e5", "0..5", "½", "１２", "5%", "abc def", "$3", "+", "+.", "-.", ".", "e", "+e1", "0x", "1e+", "+-1", "5;", "1:2", "1e999", "-2e308", "1e309", "0x1p2000",
	// numbers written with signs, digits or separators that only look like the ASCII ones
	"−5", "−1.5", "−1e3", "＋5", "﹣2", "‐3", "–4", "١٢", "5٫5", "1٬000", "۳", "５", "1e−3", "1·5", "²", "Ⅳ"}

func genC09Malformed(t *rapid.T, names []string, label string) string {
	indent := vIndents[rapid.IntRange(0, len(vIndents)-1).Draw(t, label+".indent")]
	nm := c09SafeName(names[rapid.IntRange(0, len(names)-1).Draw(t, label+".name")])
	if rapid.IntRange(0, 11).Draw(t, label+".longline") == 0 {
		// a malformed line of 1 .. 60 KiB (a long category path as name): it is quoted as it stands
		seg := []string{"/very long category name", "/x", " y", "/飯"}[rapid.IntRange(0, 3).Draw(t, label+".longseg")]
		target := []int{1000, 1024, 1025, 1500, 4096, 5000, 20000, 60000}[rapid.IntRange(0, 7).Draw(t, label+".longn")]
		var sb strings.Builder
		sb.WriteString(nm)
		for sb.Len() < target {
			sb.WriteString(seg)
		}
		nm = sb.String() + "z"
	}
	switch rapid.IntRange(0, 11).Draw(t, label+".kind") {
	case 9: // a quoted name with the value glued to the closing quote and colon
		return indent + "\"" + nm + "\":" + fmt.Sprint(rapid.IntRange(0, 99).Draw(t, label+".v")) + []string{"", ".5"}[rapid.IntRange(0, 1).Draw(t, label+".frac")]
	case 10: // a quoted name and nothing else
		return indent + "\"" + nm + "\""
	case 11: // list item, quoted name, glued value
		return indent + "- \"" + nm + "\":" + fmt.Sprint(rapid.IntRange(0, 99).Draw(t, label+".v"))
	case 6: // the only separator before the value is a blank that is not an ASCII blank
		return indent + nm + ":" + []string{"\u00a0", "\u3000", "\u2003", "\u00a0\u00a0"}[rapid.IntRange(0, 3).Draw(t, label+".nbsp")] + fmt.Sprint(rapid.IntRange(0, 99).Draw(t, label+".v"))
	case 7: // a list dash in column 0 glued to the name
		return "-" + nm
	case 8:
		return "-" + nm + ": " + c09BadValues[rapid.IntRange(0, len(c09BadValues)-1).Draw(t, label+".bad")]
	case 0:
		return indent + nm
	case 1:
		return indent + nm + ":" + fmt.Sprint(rapid.IntRange(0, 99).Draw(t, label+".v"))
	case 2:
		return indent + "- " + nm
	case 3:
		return indent + nm + ":"
	default:
		return indent + nm + ": " + c09BadValues[rapid.IntRange(0, len(c09BadValues)-1).Draw(t, label+".bad")]
	}
}

// c09SafeName makes sure the last blank-separated token of the name cannot be
// read as a number (otherwise "  a 5" would be a well-formed entry a = 5).
func c09SafeName(nm string) string {
	last := nm
	if i := strings.LastIndexAny(nm, " \t"); i >= 0 {
		last = nm[i+1:]
	}
	l := strings.ToLower(strings.TrimLeft(last, "+-"))
	if l == "" || (l[0] >= '0' && l[0] <= '9') || l[0] == '.' || strings.HasPrefix(l, "inf") || strings.HasPrefix(l, "nan") {
		return nm + "z"
	}
	return nm
}

// c09Plant inserts k raw lines at random positions after the first heading.
func c09Plant(t *rapid.T, d *vDoc, k int, names []string, label string) {
	if len(d.Recs) == 0 {
		return
	}
	for i := 0; i < k; i++ {
		ri := rapid.IntRange(0, len(d.Recs)-1).Draw(t, label+".rec")
		r := &d.Recs[ri]
		pos := rapid.IntRange(0, len(r.Lines)).Draw(t, label+".pos")
		eol := "\n"
		if r.HL.EOL == "\r\n" {
			eol = "\r\n"
		}
		text := genC09Malformed(t, names, label+".m")
		if rapid.IntRange(0, 3).Draw(t, label+".trail") == 0 {
			text += []string{" ", "  ", "\t", " \t "}[rapid.IntRange(0, 3).Draw(t, label+".trailv")] // the line is quoted as it stands in the file
		}
		ln := vLine{Kind: vkRaw, Text: text, L: vLayout{EOL: eol}}
		r.Lines = append(r.Lines[:pos], append([]vLine{ln}, r.Lines[pos:]...)...)
	}
	d.NoFinalNL = d.NoFinalNL && rapid.Bool().Draw(t, label+".nofinal")
}

func c09Message(err string, p c09Planted) string {
	if !strings.Contains(err, fmt.Sprintf("line %d", p.Line)) {
		return fmt.Sprintf("does not name line %d", p.Line)
	}
	// "line 1" must not be satisfied by "line 12"
	idx := strings.Index(err, fmt.Sprintf("line %d", p.Line))
	rest := err[idx+len(fmt.Sprintf("line %d", p.Line)):]
	if rest != "" && rest[0] >= '0' && rest[0] <= '9' {
		return fmt.Sprintf("does not name line %d", p.Line)
	}
	if !strings.Contains(err, p.Text) {
		return fmt.Sprintf("does not quote the malformed line %q", p.Text)
	}
	return ""
}

func checkC09(c c09Case, ctx *vCtx) *vFailure {
	f := c.S.Write("c09")
	bookBad, bookFiller := c09Find(c.S.Book)
	logBad, logFiller := c09Find(c.S.Log)
	ctx.NonTrivial((len(bookBad) > 0 && bookFiller) || (len(logBad) > 0 && logFiller))
	ctx.Labelf("k-book=%d", len(bookBad))
	ctx.Labelf("k-log=%d", len(logBad))
	if len(c.Period) > 0 {
		ctx.Label("with-period")
	}
	run := func(args ...string) vRun {
		inv := vInvocation{Args: args}
		ctx.Run(1)
		if c.Bin {
			r := vRunBin(inv, 30*time.Second)
			if r.Exit == -999 {
				vHang("the real binary did not terminate within its time limit on %v", args)
			}
			if r.Failed && strings.Contains(r.Stderr, "goroutine ") {
				r.Panic = r.Stderr
			}
			// log.Fatal prefixes the message with a timestamp
			return r
		}
		return vRunApp(inv)
	}
	day := "2021/01/01"
	if len(c.S.Log.Recs) > 0 {
		day = c.S.Log.Recs[0].Head
	}
	x := "x"
	if len(c.S.Basics) > 0 {
		x = c.S.Basics[0]
	}
	type cmd struct {
		args      []string
		readsBook bool
		readsLog  bool
	}
	cmds := []cmd{
		{[]string{"reg", "--no-color"}, true, true},
		{[]string{"reg", "--use-old-reg-reporter"}, true, true},
		{[]string{"reg", "--internal-template-name", "left-aligned"}, true, true},
		{[]string{"reg", "-s", x}, true, true},
		{[]string{"reg", "-s", x, "-g"}, true, true},
		{[]string{"reg", "-f", "."}, true, true},
		{[]string{"reg", "-f", "foo", "--csv"}, true, true},
		{[]string{"reg", "--totals-only"}, true, true},
		{[]string{"reg", "--no-totals", "--shorten"}, true, true},
		{[]string{"bal", "-c"}, true, true},
		{[]string{"bal", "--collapse-last", "-s", x}, true, true},
		{[]string{"bal"}, true, true},
		{[]string{"bal", "-s", x}, true, true},
		{[]string{"csv", "log"}, false, true},
		{[]string{"print"}, false, true},
		{[]string{"report", "totals"}, true, true},
		{[]string{"report", "quantity"}, false, true},
		{[]string{"report", "unresolved"}, true, true},
		{[]string{"summary", day}, true, true},
		{[]string{"stats"}, true, true},
		{[]string{"csv", "database"}, true, false},
		{[]string{"csv", "database-resolved"}, true, false},
		{[]string{"report", "element-total", x}, true, false},
	}
	var firstMsg = map[string]string{} // file -> message text of its first malformed line as returned by commands
	for _, cm := range cmds {
		var want *c09Planted
		which := ""
		switch {
		case cm.args[0] == "stats":
			// stats reads the log first, then the book
			if len(logBad) > 0 {
				want, which = &logBad[0], "log"
			} else if len(bookBad) > 0 {
				want, which = &bookBad[0], "book"
			}
		case cm.readsBook && len(bookBad) > 0:
			want, which = &bookBad[0], "book"
		case cm.readsLog && len(logBad) > 0:
			want, which = &logBad[0], "log"
		}
		r := run(append(append([]string{}, c.Period...), f.Args(cm.args...)...)...)
		if r.Panic != "" {
			return vFailSig("C09/"+cm.args[0]+"-"+which+"/crash-instead-of-report", "%v crashes instead of reporting the malformed line: %s", cm.args, vTrunc(r.Panic, 1200))
		}
		if want == nil {
			if r.Failed {
				return vFailf("%v fails (%q) although the files it reads have no malformed entry", cm.args, r.Err)
			}
			continue
		}
		if !r.Failed {
			return vFailSig("C09/"+cm.args[0]+"/no-failure", "%v succeeds although the %s has a malformed entry on line %d (%q)", cm.args, which, want.Line, want.Text)
		}
		if msg := c09Message(r.Err, *want); msg != "" {
			return vFailf("%v: error %q %s (first malformed line of the %s)", cm.args, r.Err, msg, which)
		}
		if !c.Bin {
			if prev, ok := firstMsg[which]; ok && prev != r.Err {
				return vFailf("%v reports %q, another command reported %q for the same file", cm.args, r.Err, prev)
			}
			firstMsg[which] = r.Err
		}
	}
	// lint
	for _, target := range []struct {
		which string
		path  string
		bad   []c09Planted
	}{{"log", f.Log, logBad}, {"book", f.Book, bookBad}} {
		args := []string{"lint"}
		if c.Silent {
			args = append(args, "--silent")
		}
		args = append(args, target.path)
		r := run(args...)
		if r.Panic != "" {
			return vFailf("lint crashes: %s", vTrunc(r.Panic, 1200))
		}
		lines := vLines(r.Stdout)
		k := len(target.bad)
		wantLines := k
		if k == 0 && !c.Silent {
			wantLines = 1
		}
		if len(lines) != wantLines {
			sig := ""
			if k > 0 && len(lines) == k+1 && lines[k] == "No errors found" {
				sig = "C09/lint/no-errors-found-after-errors"
			}
			return vFailSig(sig, "lint of the %s (k=%d malformed lines, silent=%v) prints %d lines, expected %d:\n%s", target.which, k, c.Silent, len(lines), wantLines, r.Stdout)
		}
		if k == 0 {
			if !c.Silent && lines[0] != "No errors found" {
				return vFailf("lint of a clean file prints %q", lines[0])
			}
			if r.Failed {
				return vFailf("lint of a clean file fails: %q", r.Err)
			}
			continue
		}
		for i, p := range target.bad {
			if msg := c09Message(lines[i], p); msg != "" {
				return vFailf("lint message %d %q %s", i, lines[i], msg)
			}
		}
		if m, ok := firstMsg[target.which]; ok && m != lines[0] {
			return vFailf("lint's first message %q differs from the error the other commands return %q", lines[0], m)
		}
		if !r.Failed {
			return vFailSig("C09/lint/exit-zero-with-errors", "lint of the %s reports %d malformed lines but ends with status 0", target.which, k)
		}
	}
	return nil
}

func genC09(t *rapid.T) c09Case {
	lo := vLayoutOpts{EOL: []string{"", "", "\r\n", "mixed"}[rapid.IntRange(0, 3).Draw(t, "eol")]}
	exact := true
	s := vGenScenario(t, vScenOpts{MinDays: 1, MaxDays: 4, MaxEntries: 4, MaxRecipes: 4, Exact: &exact, Layout: &lo, Notes: true})
	if len(s.Book.Recs) == 0 {
		s.Book.Recs = []vRec{{Head: "filler", HL: vLayout{EOL: "\n"}}}
	}
	names := append(append([]string{"foo", "ab c"}, s.Recipes...), s.Basics...)
	kb, kl := 0, 0
	switch rapid.IntRange(0, 4).Draw(t, "where") {
	case 0: // clean
	case 1, 2:
		kl = rapid.IntRange(1, 5).Draw(t, "kl")
	case 3:
		kb = rapid.IntRange(1, 5).Draw(t, "kb")
	default:
		kl = rapid.IntRange(1, 3).Draw(t, "kl")
		kb = rapid.IntRange(1, 3).Draw(t, "kb")
	}
	if rapid.IntRange(0, 39).Draw(t, "many") == 0 { // more malformed lines than any plausible cap on reported errors
		kl = rapid.IntRange(1001, 1300).Draw(t, "klmany")
	}
	// well-formed entries with names of any shape the format allows (inner tabs, quotes, colons, digits ...): they are
	// not malformed, wherever the value separator is looked for
	for di, d := range []*vDoc{&s.Book, &s.Log} {
		if len(d.Recs) == 0 || rapid.IntRange(0, 2).Draw(t, fmt.Sprintf("wild%d", di)) != 0 {
			continue
		}
		for k := rapid.IntRange(1, 2).Draw(t, fmt.Sprintf("nwild%d", di)); k > 0; k-- {
			r := &d.Recs[rapid.IntRange(0, len(d.Recs)-1).Draw(t, fmt.Sprintf("wildrec%d", di))]
			at := rapid.IntRange(0, len(r.Lines)).Draw(t, fmt.Sprintf("wildat%d", di))
			ln := vLine{Kind: vkEntry, Name: "w~" + vGenName(t, true, fmt.Sprintf("wildname%d", di)), Num: vGenNumDecimal(t, fmt.Sprintf("wildnum%d", di)), L: vGenEntryLayout(t, lo, fmt.Sprintf("wildl%d", di))}
			r.Lines = append(r.Lines[:at], append([]vLine{ln}, r.Lines[at:]...)...)
		}
		d.NoFinalNL = false
	}
	if rapid.IntRange(0, 4).Draw(t, "hashhead") == 0 {
		// the book begins with a recipe whose name begins with the comment character (written quoted, the only way)
		plain := vLayout{Indent: "  ", Sep: ": ", EOL: "\n"}
		first := vRec{Head: "#" + []string{"1 breakfast", "lunch", "#", " x"}[rapid.IntRange(0, 3).Draw(t, "hashname")], HL: vLayout{Quote: true, EOL: "\n"},
			Lines: []vLine{{Kind: vkEntry, Name: "x", Num: "1", L: plain}, {Kind: vkEntry, Name: "y", Num: "2", L: plain}}}
		s.Book.Recs = append([]vRec{first}, s.Book.Recs...)
	}
	if kb > 0 && rapid.IntRange(0, 5).Draw(t, "emptyjournal") == 0 {
		// a journal without a single record (empty, or blank lines and comments only) beside a book with malformed lines:
		// every command that reads the book still has to fail on it
		s.Log = vDoc{}
		for k := rapid.IntRange(0, 3).Draw(t, "emptyjournalpre"); k > 0; k-- {
			s.Log.Pre = append(s.Log.Pre, vGenFillerLine(t, lo, "emptyjournalline"))
		}
		s.Days = nil
		kl = 0
	}
	c09Plant(t, &s.Book, kb, names, "pb")
	c09Plant(t, &s.Log, kl, names, "pl")
	// one file in eight that holds malformed lines ends in a comment line longer than the line buffer (the read fails
	// there): what lint has found before that point must still be reported
	for _, d := range []*vDoc{&s.Book, &s.Log} {
		planted, _ := c09Find(*d)
		if len(planted) > 0 && len(planted) < 50 && len(d.Recs) > 0 && rapid.IntRange(0, 7).Draw(t, "longtail") == 0 {
			last := &d.Recs[len(d.Recs)-1]
			last.Lines = append(last.Lines, vLine{Kind: vkComment, Text: strings.Repeat("c", 70000), L: vLayout{EOL: "\n"}})
			d.NoFinalNL = false
		}
	}
	c := c09Case{S: s, Silent: rapid.Bool().Draw(t, "silent"), Bin: rapid.IntRange(0, 24).Draw(t, "bin") == 0}
	if rapid.IntRange(0, 2).Draw(t, "period") == 0 {
		if rapid.Bool().Draw(t, "hasb") {
			c.Period = append(c.Period, "-b", vFmtDay(rapid.IntRange(-1, 6).Draw(t, "b"), ""))
		}
		if rapid.Bool().Draw(t, "hase") {
			c.Period = append(c.Period, "-e", vFmtDay(rapid.IntRange(-1, 6).Draw(t, "e"), ""))
		}
	}
	return c
}

func init() {
	vRegister("C09", "c09.random", checkC09)
	vRegister("C09", "c09.huge", checkC09Huge)
}

// ---------------------------------------------------------------------------
// huge files: one malformed line far beyond every buffer and size mark a reader may have (4 KiB, 64 KiB, 1 MiB,
// 32 MiB), followed by more well-formed records

type c09HugeCase struct {
	KiB   int  `json:"kib"`
	IsLog bool `json:"islog"`
	Cmd   int  `json:"cmd"`
	CRLF  bool `json:"crlf,omitempty"` // every line ends in CR LF
	Pad   int  `json:"pad,omitempty"`  // length of a comment line at the top: shifts every later line against the reader's chunk boundaries
}

var c09HugeLogCmds = [][]string{{"lint", "@F@"}, {"csv", "log"}, {"print"}, {"report", "quantity"}, {"reg"}, {"stats"}}
var c09HugeBookCmds = [][]string{{"lint", "@F@"}, {"csv", "database"}, {"report", "element-total", "x"}, {"reg"}, {"stats"}}

func checkC09Huge(c c09HugeCase, ctx *vCtx) *vFailure {
	var sb strings.Builder
	line := 0
	if c.Pad > 0 || c.CRLF {
		sb.WriteString("#" + strings.Repeat("p", c.Pad) + "\n")
		line++
	}
	for i := 0; sb.Len() < c.KiB*1024; i++ {
		if c.IsLog {
			sb.WriteString(vFmtDay(i%20000, "") + ":\n")
			fmt.Fprintf(&sb, "  food%d: 1\n", i%13)
		} else {
			fmt.Fprintf(&sb, "recipe%d:\n  x: %d\n", i, i%9+1)
		}
		line += 2
	}
	bad := "  this entry has no value"
	sb.WriteString(bad + "\n")
	line++
	if c.IsLog {
		sb.WriteString("2099/01/01:\n  food1: 1\n")
	} else {
		sb.WriteString("lastrecipe:\n  x: 1\n")
	}
	text := sb.String()
	if c.CRLF {
		text = strings.ReplaceAll(text, "\n", "\r\n")
		ctx.Label("crlf")
	}
	huge := vWriteFile("c09-huge.yaml", text)
	small := vWriteFile("c09-huge-other.yaml", map[bool]string{true: "r:\n  x: 1\n", false: "2021/01/01:\n  r: 1\n"}[c.IsLog])
	cmds := c09HugeBookCmds
	lp, bp := small, huge
	if c.IsLog {
		cmds, lp, bp = c09HugeLogCmds, huge, small
	}
	cmd := cmds[c.Cmd%len(cmds)]
	args := []string{"--today", vToday, "-d", bp, "-l", lp}
	for _, a := range cmd {
		args = append(args, strings.ReplaceAll(a, "@F@", huge))
	}
	// a report over tens of MiB of input legitimately takes a while: the time limit grows with the size
	oldLimit := vWatchLimit
	vWatchLimit = oldLimit + time.Duration(c.KiB/1024)*6*time.Second
	defer func() { vWatchLimit = oldLimit }()
	r := vRunApp(vInvocation{Args: args})
	ctx.Run(1)
	ctx.NonTrivial(true)
	ctx.Labelf("size>=%dKiB", c.KiB)
	if r.Panic != "" {
		return vFailf("%v crashes on a %d KiB file: %s", cmd, c.KiB, vTrunc(r.Panic, 800))
	}
	want := c09Planted{Line: line, Text: bad}
	if cmd[0] == "lint" {
		lines := vLines(r.Stdout)
		if len(lines) != 1 || c09Message(lines[0], want) != "" || !r.Failed {
			return vFailSig("C09/huge/lint", "lint of a %d KiB file whose line %d is malformed: failed=%v, printed %q", c.KiB, line, r.Failed, vTrunc(r.Stdout, 400))
		}
		return nil
	}
	if !r.Failed {
		return vFailSig("C09/huge/no-failure", "%v succeeds although line %d of its %d KiB %s is malformed (%q)", cmd, line, c.KiB, map[bool]string{true: "log", false: "book"}[c.IsLog], bad)
	}
	if msg := c09Message(r.Err, want); msg != "" {
		return vFailf("%v on a %d KiB file: error %q %s", cmd, c.KiB, vTrunc(r.Err, 300), msg)
	}
	return nil
}

func TestVerifC09Huge(t *testing.T) {
	sizes := []int{70, 300, 1100, 33 * 1024}
	if vThorough() {
		sizes = append(sizes, 5*1024, 65*1024, 130*1024)
	}
	var space []c09HugeCase
	for _, kib := range sizes {
		for _, isLog := range []bool{true, false} {
			n := len(c09HugeBookCmds)
			if isLog {
				n = len(c09HugeLogCmds)
			}
			for ci := 0; ci < n; ci++ {
				if kib >= 32*1024 && (!vThorough() || kib > 40*1024) && ci > 2 {
					continue // three commands on the files above 32 MiB (quick) / above 40 MiB (thorough)
				}
				space = append(space, c09HugeCase{KiB: kib, IsLog: isLog, Cmd: ci})
			}
		}
	}
	// CR LF files a little above the 64 KiB read buffer, swept over 64 alignments against the chunk boundaries
	for pad := 0; pad < 64; pad++ {
		for _, isLog := range []bool{true, false} {
			space = append(space, c09HugeCase{KiB: 70, IsLog: isLog, Cmd: 0, CRLF: true, Pad: pad})
			if pad%4 == 0 {
				space = append(space, c09HugeCase{KiB: 140, IsLog: isLog, Cmd: 1, CRLF: true, Pad: pad})
			}
		}
	}
	vEnum(t, "C09", "c09.huge",
		"logs and books of 70 KiB, 300 KiB, 1.1 MiB and 33 MiB (thorough: also 5, 65 and 130 MiB) whose only malformed line lies at the end of that much well-formed text, followed by one more record; lint and 4-5 commands; CR LF files of 70 / 140 KiB under 64 alignments against the read buffer; the error must name that line number and quote the line",
		fmt.Sprintf("%d (size, file, command) combinations", len(space)), len(space), func(i int) c09HugeCase { return space[i] }, checkC09Huge)
}

func TestVerifC09Random(t *testing.T) {
	vRapid(t, "C09", "c09.random",
		"well-formed books and logs (blank lines, column-0 comments, notes, LF/CRLF/mixed, every entry layout) with k in 0..5 (1 case in 40: 1001..1300) malformed entries (no value, no blank before the value, dash without value, non-numeric value of 14 kinds) planted at random positions after the first heading of the log, the book or both; 16 commands (a third of the cases with a global -b/-e period that may exclude the day holding the malformed line) + lint with/without --silent (1/25 of the cases through the real binary); oracle by construction: line number and raw text of each planted line; non-trivial = k>=1 and a blank/comment/note line before the first malformed line",
		vBudget(3200, 64000), genC09, checkC09)
}
