//go:build go1.21

package main

// C10 — unreadable input is an error, never a silently shortened report.

import (
	"errors"
	"fmt"
	"io"
	"os"
	"path/filepath"
	"strings"
	"syscall"
	"testing"
	"time"

	"pgregory.net/rapid"
)

// vFaultReader delivers data in chunks and starts failing at byte offset FailAt
// (FailAt > len(data): healthy, ends with io.EOF).
type vFaultReader struct {
	data        []byte
	pos         int
	failAt      int
	err         error
	chunks      []int // cyclic chunk sizes
	ci          int
	withLast    bool // return the error together with the last chunk
	once        bool // the read at failAt fails exactly once, later reads continue with the remaining data
	failed      bool
	eofWithLast bool // a healthy reader that reports io.EOF together with its last bytes (io.Reader allows both ways)
}

func (r *vFaultReader) Read(p []byte) (int, error) {
	if len(p) == 0 {
		return 0, nil
	}
	if r.once {
		if !r.failed && r.pos >= r.failAt {
			r.failed = true
			return 0, r.err
		}
		if r.pos >= len(r.data) {
			return 0, io.EOF
		}
		n := len(p)
		if len(r.chunks) > 0 {
			if c := r.chunks[r.ci%len(r.chunks)]; c < n {
				n = c
			}
			r.ci++
		}
		if !r.failed && n > r.failAt-r.pos {
			n = r.failAt - r.pos
		}
		if n > len(r.data)-r.pos {
			n = len(r.data) - r.pos
		}
		copy(p, r.data[r.pos:r.pos+n])
		r.pos += n
		return n, nil
	}
	limit := len(r.data)
	if r.failAt < limit {
		limit = r.failAt
	}
	if r.pos >= limit {
		if r.failAt <= len(r.data) {
			return 0, r.err
		}
		return 0, io.EOF
	}
	n := len(p)
	if len(r.chunks) > 0 {
		c := r.chunks[r.ci%len(r.chunks)]
		r.ci++
		if c < n {
			n = c
		}
	}
	if n > limit-r.pos {
		n = limit - r.pos
	}
	copy(p, r.data[r.pos:r.pos+n])
	r.pos += n
	if r.withLast && r.pos == limit && r.failAt <= len(r.data) {
		return n, r.err
	}
	if r.eofWithLast && r.pos == len(r.data) && r.failAt > len(r.data) {
		return n, io.EOF
	}
	return n, nil
}

var c10Errors = []error{io.ErrUnexpectedEOF, errors.New("verif: injected read error"), syscall.EISDIR, syscall.EIO,
	&os.PathError{Op: "read", Path: "log.yaml", Err: os.ErrClosed}, io.ErrClosedPipe, fmt.Errorf("wrapped: %w", io.EOF), os.ErrDeadlineExceeded, syscall.EINTR, syscall.EAGAIN, fmt.Errorf("read log.yaml: %w", syscall.EINTR)}

type c10ParserCase struct {
	Doc    vDoc  `json:"doc"`
	Chunks []int `json:"chunks"` // empty = whatever the scanner asks for
	Err    int   `json:"err"`
}

func checkC10Parser(c c10ParserCase, ctx *vCtx) *vFailure {
	text := []byte(c.Doc.Render())
	want := c.Doc.Parsed()
	ctx.NonTrivial(len(want) >= 2)
	ctx.Labelf("err=%v", c10Errors[c.Err])
	if len(c.Chunks) == 1 && c.Chunks[0] == 1 {
		ctx.Label("one-byte-reads")
	}
	parse := func(r io.Reader) ([]vGotRec, error) {
		var recs []vGotRec
		err := vParseStreamStop(r, &recs)
		return recs, err
	}
	for k := 0; k <= len(text); k++ {
		for _, withLast := range []bool{false, true} {
			if withLast && k == 0 {
				continue
			}
			fr := &vFaultReader{data: text, failAt: k, err: c10Errors[c.Err], chunks: c.Chunks, withLast: withLast}
			recs, err := parse(fr)
			ctx.Run(1)
			if err == nil {
				return vFailSig("C10/parser/read-error-ignored", "the reader fails with %q at byte offset %d of %d (error delivered %s), but parsing reports success after %d of %d records — a silently shortened result.\nfile: %q", c10Errors[c.Err], k, len(text), map[bool]string{false: "alone", true: "together with the last bytes"}[withLast], len(recs), len(want), vTrunc(string(text), 600))
			}
		}
	}
	// a read that fails once and then continues (or ends) is still a failed read
	for k := 0; k <= len(text); k++ {
		fr := &vFaultReader{data: text, failAt: k, err: c10Errors[c.Err], chunks: c.Chunks, once: true}
		recs, err := parse(fr)
		ctx.Run(1)
		if err == nil {
			return vFailSig("C10/parser/transient-read-error-ignored", "one read fails with %q at byte offset %d of %d and the following reads succeed, but parsing reports success (%d of %d records).\nfile: %q", c10Errors[c.Err], k, len(text), len(recs), len(want), vTrunc(string(text), 600))
		}
	}
	// control: a healthy reader with the same chunking succeeds and accounts for everything
	hr := &vFaultReader{data: text, failAt: len(text) + 1, chunks: c.Chunks}
	got, errs, ret := vParseAllReader(hr)
	ctx.Run(1)
	if f := vCompareParsed(want, got, errs, ret, "healthy reader with the same chunking"); f != nil {
		return f
	}
	// the same, with io.EOF delivered together with the last bytes
	hr2 := &vFaultReader{data: text, failAt: len(text) + 1, chunks: c.Chunks, eofWithLast: true}
	got, errs, ret = vParseAllReader(hr2)
	ctx.Run(1)
	if f := vCompareParsed(want, got, errs, ret, "healthy reader that returns io.EOF together with its last bytes"); f != nil {
		return f
	}
	return nil
}

func genC10Parser(t *rapid.T) c10ParserCase {
	// every byte offset is tried, so the files stay small: no 4-9 KiB filler lines here
	lo := vLayoutOpts{NoLong: true, EOL: []string{"", "\r\n", "mixed"}[rapid.IntRange(0, 2).Draw(t, "eol")]}
	maxRec := vPick(5, 12)
	pool := vGenNamePool(t, true, 4, "pool")
	var d vDoc
	nrec := rapid.IntRange(1, maxRec).Draw(t, "nrec")
	for i := 0; i < nrec; i++ {
		var lines []vLine
		ne := rapid.IntRange(0, 4).Draw(t, "nent")
		for k := 0; k < ne; k++ {
			lines = append(lines, vLine{Kind: vkEntry, Name: pool[rapid.IntRange(0, 3).Draw(t, "ei")], Num: vGenNumDecimal(t, "num"), L: vGenEntryLayout(t, lo, "el")})
		}
		rec := vRec{Head: vGenName(t, true, "head"), HL: vGenHeadLayout(t, lo, "hl"), Lines: lines}
		switch rapid.IntRange(0, 7).Draw(t, "barehead") {
		case 0: // a heading without its colon
			rec.HL.NoColon, rec.HL.Quote = true, false
		case 1: // a line that YAML would read as a document marker is a heading like any other here
			rec.Head, rec.HL.NoColon, rec.HL.Quote = []string{"...", "....", "…"}[rapid.IntRange(0, 2).Draw(t, "marker")], true, false
		}
		d.Recs = append(d.Recs, rec)
	}
	vDecorate(t, &d, lo, true, "deco")
	c := c10ParserCase{Doc: d, Err: rapid.IntRange(0, len(c10Errors)-1).Draw(t, "err")}
	switch rapid.IntRange(0, 3).Draw(t, "chunking") {
	case 0:
	case 1:
		c.Chunks = []int{1}
	default:
		c.Chunks = rapid.SliceOfN(rapid.IntRange(1, 64), 1, 6).Draw(t, "chunks")
	}
	return c
}

// ---------------------------------------------------------------------------
// command functions with a failing reader

type c10CmdCase struct {
	S        vScenario `json:"s"`
	Cmd      int       `json:"cmd"`
	OnLog    bool      `json:"onlog"`
	Permille []int     `json:"permille"` // fault offsets as fractions of the file length
	WithLast bool      `json:"withlast"`
	Chunks   []int     `json:"chunks"`
	Err      int       `json:"err"`
}

// vBrokenPipe is a sink whose reader has gone away: every write fails with EPIPE, as os.Stdout does then.
type vBrokenPipe struct{}

func (vBrokenPipe) Write(p []byte) (int, error) {
	return 0, &os.PathError{Op: "write", Path: "/dev/stdout", Err: syscall.EPIPE}
}

func checkC10Cmd(c c10CmdCase, ctx *vCtx) *vFailure {
	cmd := vAPICmds[c.Cmd]
	onLog := c.OnLog
	if !cmd.UsesLog {
		onLog = false
	}
	if !cmd.UsesDB {
		onLog = true
	}
	logText, bookText := []byte(c.S.Log.Render()), []byte(c.S.Book.Render())
	target := bookText
	if onLog {
		target = logText
	}
	x := "x"
	if len(c.S.Basics) > 0 {
		x = c.S.Basics[0]
	}
	ctx.Label("cmd:" + cmd.Name)
	ctx.NonTrivial(len(target) > 0)
	offsets := map[int]bool{0: true, len(target): true}
	for _, p := range c.Permille {
		offsets[p*len(target)/1000] = true
	}
	for k := range offsets {
		fr := &vFaultReader{data: target, failAt: k, err: c10Errors[c.Err], chunks: c.Chunks, withLast: c.WithLast && k > 0}
		var lr, dr io.Reader = strings.NewReader(string(logText)), strings.NewReader(string(bookText))
		if onLog {
			lr = fr
		} else {
			dr = fr
		}
		var out strings.Builder
		var sink io.Writer = &out
		if (k+len(target))%3 == 0 {
			// the reader of the report has gone away as well (a closed pipe): two failures are still a failure
			sink = vBrokenPipe{}
			ctx.Label("output-is-a-broken-pipe-too")
		}
		err, pan := vCallAPI(cmd, lr, dr, sink, x)
		ctx.Run(1)
		if pan != "" {
			return vFailf("%s panics when its %s reader fails at byte %d: %s", cmd.Name, map[bool]string{true: "log", false: "book"}[onLog], k, vTrunc(pan, 1000))
		}
		if err == nil {
			return vFailSig("C10/"+cmd.Name+"/read-error-ignored", "%s: the %s reader fails with %q at byte %d of %d, yet the command reports success with this report:\n%s", cmd.Name, map[bool]string{true: "log", false: "book"}[onLog], c10Errors[c.Err], k, len(target), vTrunc(out.String(), 1200))
		}
	}
	// control
	var out strings.Builder
	var lr, dr io.Reader = &vFaultReader{data: logText, failAt: len(logText) + 1, chunks: c.Chunks}, &vFaultReader{data: bookText, failAt: len(bookText) + 1, chunks: c.Chunks}
	err, pan := vCallAPI(cmd, lr, dr, &out, x)
	ctx.Run(1)
	if err != nil || pan != "" {
		return vFailf("%s fails with healthy readers (%v %s)", cmd.Name, err, pan)
	}
	return nil
}

func vCallAPI(cmd vAPICmd, lr, dr io.Reader, out io.Writer, x string) (err error, pan string) {
	defer func() {
		if r := recover(); r != nil {
			pan = fmt.Sprint(r)
		}
	}()
	err = cmd.Run(lr, dr, out, x)
	return
}

func genC10Cmd(t *rapid.T) c10CmdCase {
	exact := true
	s := vGenScenario(t, vScenOpts{MinDays: 1, MaxDays: 4, MaxEntries: 4, Exact: &exact})
	if len(s.Book.Recs) == 0 {
		s.Book.Recs = []vRec{{Head: "filler", HL: vLayout{EOL: "\n"}, Lines: []vLine{{Kind: vkEntry, Name: "x", Num: "1", L: vLayout{Indent: "  ", Sep: ": ", EOL: "\n"}}}}}
	}
	c := c10CmdCase{S: s, Cmd: rapid.IntRange(0, len(vAPICmds)-1).Draw(t, "cmd"), OnLog: rapid.Bool().Draw(t, "onlog"),
		Permille: rapid.SliceOfN(rapid.IntRange(0, 1000), 4, 12).Draw(t, "offsets"), WithLast: rapid.Bool().Draw(t, "withlast"),
		Err: rapid.IntRange(0, len(c10Errors)-1).Draw(t, "err")}
	if rapid.Bool().Draw(t, "chunked") {
		c.Chunks = rapid.SliceOfN(rapid.IntRange(1, 64), 1, 4).Draw(t, "chunks")
	}
	return c
}

// ---------------------------------------------------------------------------
// CLI level: long lines and directories

var c10CLICmds = []struct {
	args      []string
	log, book bool
	empty     bool // prints nothing on readable input (only the exit status tells): not used by the output-sink checks
}{
	{[]string{"reg", "--no-color"}, true, true, false},
	{[]string{"reg", "--use-old-reg-reporter"}, true, true, false},
	{[]string{"bal"}, true, true, false},
	{[]string{"bal", "-s", "x"}, true, true, false},
	{[]string{"csv", "log"}, true, false, false},
	{[]string{"csv", "database"}, false, true, false},
	{[]string{"csv", "database-resolved"}, false, true, false},
	{[]string{"print"}, true, false, false},
	{[]string{"summary", "2021/01/01"}, true, true, false},
	{[]string{"report", "totals"}, true, true, false},
	{[]string{"report", "quantity"}, true, false, false},
	{[]string{"report", "unresolved"}, true, true, false},
	{[]string{"report", "element-total", "x"}, false, true, false},
	{[]string{"stats"}, true, true, false},
	{[]string{"lint", "@LOG@"}, true, false, false},
	{[]string{"lint", "@BOOK@"}, false, true, false},
	// more positional arguments than the command documents (they do not make an unreadable first file readable)
	{[]string{"lint", "@LOG@", "@BOOK@"}, true, false, false},
	{[]string{"lint", "@BOOK@", "@LOG@"}, false, true, false},
	{[]string{"summary", "2021/01/01", "2030/05/05"}, true, true, false},
	{[]string{"reg", "-f", "."}, true, true, false},
	{[]string{"reg", "-s", "x"}, true, true, false},
	{[]string{"reg", "-s", "x", "-g"}, true, true, false},
	{[]string{"reg", "--csv", "-s", "x"}, true, true, false},
	{[]string{"bal", "-c"}, true, true, false},
	{[]string{"summary", "today"}, true, true, true},
	{[]string{"summary", "2021/01/09"}, true, true, true},
	// an element or food nothing mentions: the files must still be read
	{[]string{"reg", "-g", "-s", "absent~element"}, true, true, true},
	{[]string{"bal", "-s", "absent~element"}, true, true, true},
	{[]string{"reg", "-f", "absent~food"}, true, true, true},
	{[]string{"report", "element-total", "absent~element"}, false, true, true},
	// the element asked for is also the heading of a recipe (the first one of the book)
	{[]string{"report", "element-total", "meal0"}, false, true, true},
	{[]string{"bal", "-s", "meal0"}, true, true, true},
	{[]string{"reg", "-s", "meal0"}, true, true, true},
	// a period that holds no record: both files must still be read completely
	{[]string{"reg", "-b", "2031/01/01"}, true, true, true},
	{[]string{"bal", "-e", "1999/01/01"}, true, true, true},
	{[]string{"reg", "-s", "x", "-b", "2031/01/01"}, true, true, true},
	{[]string{"csv", "log", "-e", "1999/01/01"}, true, false, true},
}

var c10Shapes = []string{"dir", "long-entry", "long-comment", "long-note", "long-heading"}
var c10Sizes = []int{64 * 1024, 64*1024 + 1, 70 * 1024, 200 * 1024}
var c10Positions = []string{"first", "middle", "last", "first-then-big", "first-both-big", "last-behind-repeat"}

type c10CLICase struct {
	Cmd      int    `json:"cmd"`
	OnLog    bool   `json:"onlog"`
	Shape    string `json:"shape"`
	Size     int    `json:"size"`
	Pos      string `json:"pos"`
	Bin      bool   `json:"bin"`
	End      bool   `json:"end,omitempty"`      // a global -e 2021/01/01: the unreadable part lies in days after the period
	Begin    bool   `json:"begin,omitempty"`    // a global -b 2021/01/01 while both paths were last modified in 2001: what a file holds does not depend on its time stamps
	PauseMS  int    `json:"pausems,omitempty"`  // fifo: the writer pauses this long after half of the content
	Defaults bool   `json:"defaults,omitempty"` // the files are ./food.yaml and ./log.yaml of the working directory, no -d / -l
	// ViaConfig: the unreadable path is named by the configuration file (not by -d / -l), and the working directory holds
	// readable files under the default names: the configured path is the one that counts
	ViaConfig bool `json:"viaconfig,omitempty"`
}

func c10LongFile(isLog bool, shape string, size int, pos string) string {
	var recs []string
	for i := 0; i < 3; i++ {
		if isLog {
			recs = append(recs, fmt.Sprintf("2021/01/0%d:\n  meal: %d\n  snack: 2\n", i+1, i+1))
		} else {
			recs = append(recs, fmt.Sprintf("meal%d:\n  x: %d\n  y: 2\n", i, i+1))
		}
	}
	var long string
	switch shape {
	case "long-entry":
		long = "  " + strings.Repeat("a", size-5) + ": 1\n"
	case "long-comment":
		long = "#" + strings.Repeat("c", size-1) + "\n"
	case "long-note":
		long = "  # " + strings.Repeat("n", size-4) + "\n"
	case "long-heading":
		long = strings.Repeat("h", size-1) + ":\n  x: 1\n"
	case "control":
		long = "  " + strings.Repeat("a", size-5) + ": 1\n"
	}
	ins := func(rec string) string { // put the long line right after the heading of rec
		i := strings.Index(rec, "\n") + 1
		if shape == "long-heading" {
			return long + rec
		}
		return rec[:i] + long + rec[i:]
	}
	switch pos {
	case "first-both-big", "first-then-big":
		// the long line at the very beginning, then several hundred KiB of ordinary records: a reader that skips ahead
		// (to the tail of a big file, say) must still notice what it skipped
		recs[0] = ins(recs[0])
		var sb strings.Builder
		fill := 400 * 1024
		if pos == "first-both-big" {
			fill = 1200 * 1024 // and the other file is that big too (see checkC10CLI)
		}
		for i := 0; sb.Len() < fill; i++ {
			if isLog {
				fmt.Fprintf(&sb, "%s:\n  meal: 1\n  snack%d: 2\n", vFmtDay(10+i%3000, ""), i%7)
			} else {
				fmt.Fprintf(&sb, "filler%d:\n  x: %d\n  y: 2\n", i, i%9+1)
			}
		}
		recs = append(recs, sb.String())
	case "last-behind-repeat":
		// the first record is declared a second time (word for word) before the others: whatever a reader does about a
		// repeated heading, the rest of the file is still to be read
		recs = []string{recs[0], recs[0], recs[1], recs[2] + long}
	case "first":
		recs[0] = ins(recs[0])
	case "middle":
		recs[1] = ins(recs[1])
	default:
		if shape == "long-heading" {
			recs[2] = recs[2] + long
		} else {
			recs[2] = recs[2] + long
		}
	}
	return strings.Join(recs, "")
}

// c10BigFile: n records, each with a unique name, about 33 bytes per record.
func c10BigFile(isLog bool, n int) (text string, last string) {
	var sb strings.Builder
	for i := 0; i < n; i++ {
		if isLog {
			last = fmt.Sprintf("food%07d", i)
			fmt.Fprintf(&sb, "%s:\n  %s: 1\n  meal: 2\n", vFmtDay(i%3000, ""), last)
		} else {
			last = fmt.Sprintf("recipe%07d", i)
			fmt.Fprintf(&sb, "%s:\n  x: %d\n  y: 2\n", last, i%9+1)
		}
	}
	return sb.String(), last
}

func c10Special(c c10CLICase, ctx *vCtx, onLog bool) *vFailure {
	cmd := c10CLICmds[c.Cmd]
	which := map[bool]string{true: "log", false: "book"}[onLog]
	lp := vWriteFile("c10-log.yaml", c10LongFile(true, "", 0, ""))
	bp := vWriteFile("c10-book.yaml", c10LongFile(false, "", 0, ""))
	mkArgs := func(lp, bp string) []string {
		args := make([]string, len(cmd.args))
		for i, a := range cmd.args {
			args[i] = strings.ReplaceAll(strings.ReplaceAll(a, "@LOG@", lp), "@BOOK@", bp)
		}
		return append([]string{"--today", vToday, "-d", bp, "-l", lp}, args...)
	}
	ctx.Label("shape:" + c.Shape)
	ctx.Label("cmd:" + strings.Join(cmd.args[:vMin(2, len(cmd.args))], " "))
	ctx.NonTrivial(true)
	switch c.Shape {
	case "big-file", "big-file-bad-tail":
		text, last := c10BigFile(onLog, c.Size/33)
		if c.Shape == "big-file-bad-tail" {
			text += "  broken-entry-without-value\n"
		}
		if c.Pos == "no-final-newline" {
			// the file ends without a line end: its last line is a line like any other
			if c.Shape == "big-file-bad-tail" {
				text = strings.TrimSuffix(text, "\n")
			} else {
				if onLog {
					last = "tail~entry"
					text += "  tail~entry: 7"
				} else {
					last = "tail~recipe" // its only entry is the last line of the file
					text += "tail~recipe:\n  x: 7"
				}
			}
			ctx.Label("no-final-newline")
		}
		if onLog {
			lp = vWriteFile("c10-big-log.yaml", text)
		} else {
			bp = vWriteFile("c10-big-book.yaml", text)
		}
		r := vRunApp(vInvocation{Args: mkArgs(lp, bp)})
		ctx.Run(1)
		if c.Shape == "big-file-bad-tail" {
			if !r.Failed {
				return vFailSig("C10/cli/big-file/tail-ignored", "%v exits with success although the last line of its %d-byte %s is malformed: the end of the file was not read", cmd.args, len(text), which)
			}
			return nil
		}
		if r.Failed {
			return vFailf("%v fails on a well-formed %s of %d bytes: %s", cmd.args, which, len(text), r.Err)
		}
		joined := strings.Join(cmd.args, " ")
		shows := false
		if onLog {
			for _, p := range []string{"reg --no-color", "reg --use-old-reg-reporter", "bal", "print", "csv log", "report quantity", "report unresolved"} {
				shows = shows || joined == p
			}
		} else {
			for _, p := range []string{"csv database", "csv database-resolved", "report element-total x"} {
				shows = shows || joined == p
			}
		}
		if shows && !strings.Contains(r.Stdout, last) {
			return vFailSig("C10/cli/big-file/truncated", "%v succeeds on a %d-byte %s but its report does not mention the last record %q: the file was not read completely", cmd.args, len(text), which, last)
		}
		if cmd.args[0] == "stats" {
			st := vReadStats(r.Stdout)
			nrec := c.Size / 33
			if c.Pos == "no-final-newline" && !onLog {
				nrec++ // the recipe whose only entry is the unterminated last line
			}
			want := fmt.Sprint(nrec)
			if (onLog && st.LogRecords != want) || (!onLog && st.DbRecords != want) {
				return vFailSig("C10/cli/big-file/truncated", "stats counts %s/%s records, the %s has %s", st.LogRecords, st.DbRecords, which, want)
			}
		}
		return nil
	case "fifo":
		// the file is a named pipe: everything written to it must be taken into account
		fifo := filepath.Join(vScratchDir(), "c10-fifo")
		_ = os.Remove(fifo)
		if err := syscall.Mkfifo(fifo, 0o644); err != nil {
			vFault("mkfifo: %v", err)
		}
		content := c10LongFile(onLog, "", 0, "")
		ref := vRunBin(vInvocation{Args: mkArgs(lp, bp)}, 30*time.Second)
		done := make(chan struct{})
		go func() {
			defer close(done)
			f, err := os.OpenFile(fifo, os.O_WRONLY, 0)
			if err != nil {
				return
			}
			if c.PauseMS > 0 {
				// the writer is slow, not gone: what it writes after the pause belongs to the file
				_, _ = f.WriteString(content[:len(content)/2])
				time.Sleep(time.Duration(c.PauseMS) * time.Millisecond)
				_, _ = f.WriteString(content[len(content)/2:])
			} else {
				_, _ = f.WriteString(content)
			}
			f.Close()
		}()
		flp, fbp := lp, bp
		if onLog {
			flp = fifo
		} else {
			fbp = fifo
		}
		got := vRunBin(vInvocation{Args: mkArgs(flp, fbp)}, 30*time.Second+time.Duration(c.PauseMS)*time.Millisecond)
		ctx.Run(2)
		if c.PauseMS > 0 {
			ctx.Labelf("fifo-writer-pauses-%dms", c.PauseMS)
		}
		// unblock the writer if nobody opened the pipe for reading
		if f, err := os.OpenFile(fifo, os.O_RDONLY|syscall.O_NONBLOCK, 0); err == nil {
			f.Close()
		}
		<-done
		if cmd.args[0] == "stats" || cmd.args[0] == "lint" {
			// these print the file name; only success/failure is compared
			if got.Failed != ref.Failed {
				return vFailf("%v: fifo run failed=%v, regular file failed=%v", cmd.args, got.Failed, ref.Failed)
			}
			return nil
		}
		if !got.Failed && got.Stdout != ref.Stdout {
			return vFailSig("C10/cli/fifo/not-read", "%v succeeds with its %s given as a named pipe but the report differs from the one for the same content in a regular file — the content was not taken into account.\n--- pipe:\n%s\n--- file:\n%s", cmd.args, which, vTrunc(got.Stdout, 500), vTrunc(ref.Stdout, 500))
		}
		return nil
	}
	return nil
}

func checkC10CLI(c c10CLICase, ctx *vCtx) *vFailure {
	cmd := c10CLICmds[c.Cmd]
	onLog := c.OnLog
	if !cmd.log {
		onLog = false
	}
	if !cmd.book {
		onLog = true
	}
	if c.Shape == "big-file" || c.Shape == "big-file-bad-tail" || c.Shape == "fifo" {
		return c10Special(c, ctx, onLog)
	}
	if c.Shape == "same-file" {
		// one file that is both a valid recipe book and a valid log, named by -d and -l with the same string:
		// the report must be the one obtained from two separate copies
		text := "2021/01/01:\n  meal: 2\n  x: 1\n2021/01/02:\n  2021/01/01: 1\n  y: 3\nmeal:\n  x: 5\n"
		both := vWriteFile("c10-both.yaml", text)
		cp1, cp2 := vWriteFile("c10-copy1.yaml", text), vWriteFile("c10-copy2.yaml", text)
		mk2 := func(lp, bp string) []string {
			args := make([]string, len(cmd.args))
			for i, a := range cmd.args {
				args[i] = strings.ReplaceAll(strings.ReplaceAll(a, "@LOG@", lp), "@BOOK@", bp)
			}
			return append([]string{"--today", vToday, "--date-format", "2006/01/02", "-d", bp, "-l", lp}, args...)
		}
		ref := vRunBin(vInvocation{Args: mk2(cp1, cp2)}, 30*time.Second)
		got := vRunBin(vInvocation{Args: mk2(both, both)}, 30*time.Second)
		ctx.Run(2)
		ctx.Label("shape:same-file")
		ctx.NonTrivial(true)
		if cmd.args[0] == "stats" || cmd.args[0] == "lint" {
			return nil
		}
		if got.Failed != ref.Failed || got.Stdout != ref.Stdout {
			return vFailSig("C10/cli/same-file", "%v with the same path for -d and -l: failed=%v\n%s\nbut with two copies of that file: failed=%v\n%s", cmd.args, got.Failed, vTrunc(got.Stdout, 600), ref.Failed, vTrunc(ref.Stdout, 600))
		}
		return nil
	}
	logText := c10LongFile(true, "", 0, "")
	bookText := c10LongFile(false, "", 0, "")
	dir := filepath.Join(vScratchDir(), "c10-dir")
	_ = os.MkdirAll(dir, 0o755)
	lp, bp := vWriteFile("c10-log.yaml", logText), vWriteFile("c10-book.yaml", bookText)
	mk := func(shape string, size int) {
		if shape == "dir-proc" {
			// a directory whose stat size is 0
			if onLog {
				lp = "/proc"
			} else {
				bp = "/proc"
			}
			return
		}
		if shape == "dir" {
			if onLog {
				lp = dir
			} else {
				bp = dir
			}
			return
		}
		if onLog {
			lp = vWriteFile("c10-log.yaml", c10LongFile(true, shape, size, c.Pos))
		} else {
			bp = vWriteFile("c10-book.yaml", c10LongFile(false, shape, size, c.Pos))
		}
		if c.Pos == "first-both-big" {
			// the readable file is large as well (both above 1 MiB): whatever a command does for big inputs applies to both
			big, _ := c10BigFile(!onLog, 1200*1024/33)
			if onLog {
				bp = vWriteFile("c10-book.yaml", big)
			} else {
				lp = vWriteFile("c10-log.yaml", big)
			}
		}
	}
	run := func() vRun {
		args := make([]string, len(cmd.args))
		for i, a := range cmd.args {
			args[i] = strings.ReplaceAll(strings.ReplaceAll(a, "@LOG@", lp), "@BOOK@", bp)
		}
		inv := vInvocation{Args: append([]string{"--today", vToday, "-d", bp, "-l", lp}, args...)}
		if c.End {
			inv.Args = append([]string{"-e", "2021/01/01"}, inv.Args...)
		}
		if c.Begin {
			inv.Args = append([]string{"-b", "2021/01/01"}, inv.Args...)
			old := time.Unix(1000000000, 0)
			_ = os.Chtimes(lp, old, old)
			_ = os.Chtimes(bp, old, old)
		}
		if c.ViaConfig {
			cwd := filepath.Join(vScratchDir(), "c10-cwd-cfg")
			_ = os.RemoveAll(cwd)
			_ = os.MkdirAll(cwd, 0o755)
			_ = os.WriteFile(filepath.Join(cwd, "food.yaml"), []byte(c10LongFile(false, "", 0, "")), 0o644)
			_ = os.WriteFile(filepath.Join(cwd, "log.yaml"), []byte(c10LongFile(true, "", 0, "")), 0o644)
			key, bad, flag, good := "DbFileName", bp, "-l", lp
			if onLog {
				key, bad, flag, good = "LogFileName", lp, "-d", bp
			}
			cfg := vWriteFile("c10-viaconfig.conf", "[Global]\n"+key+"="+bad+"\n")
			for i, a := range args {
				if a == bad {
					args[i] = bad // lint takes the path as an argument: unchanged
				}
			}
			inv = vInvocation{Args: append([]string{"--today", vToday, "--config", cfg, flag, good}, args...), Cwd: cwd}
		}
		if c.Defaults {
			// the same files under their default names in a private working directory
			cwd := filepath.Join(vScratchDir(), "c10-cwd")
			_ = os.RemoveAll(cwd)
			_ = os.MkdirAll(cwd, 0o755)
			for _, fl := range [][2]string{{bp, "food.yaml"}, {lp, "log.yaml"}} {
				if st, err := os.Stat(fl[0]); err == nil && st.IsDir() {
					_ = os.Mkdir(filepath.Join(cwd, fl[1]), 0o755)
				} else if b, err := os.ReadFile(fl[0]); err == nil {
					_ = os.WriteFile(filepath.Join(cwd, fl[1]), b, 0o644)
				}
			}
			for i, a := range args {
				if a == lp {
					args[i] = "log.yaml"
				} else if a == bp {
					args[i] = "food.yaml"
				}
			}
			inv = vInvocation{Args: append([]string{"--today", vToday}, args...), Cwd: cwd}
			if c.End {
				inv.Args = append([]string{"-e", "2021/01/01"}, inv.Args...)
			}
		}
		ctx.Run(1)
		if c.Bin {
			r := vRunBin(inv, 30*time.Second)
			if r.Exit == -999 {
				vHang("the real binary did not terminate within its time limit")
			}
			return r
		}
		return vRunApp(inv)
	}
	which := map[bool]string{true: "log", false: "book"}[onLog]
	ctx.Label("shape:" + c.Shape)
	if c.End {
		ctx.Label("with -e before the fault")
	}
	if c.Defaults {
		ctx.Label("default file names")
	}
	if c.Begin {
		ctx.Label("with -b and old time stamps")
	}
	ctx.Label("cmd:" + strings.Join(cmd.args[:vMin(2, len(cmd.args))], " "))
	ctx.NonTrivial(strings.HasPrefix(c.Shape, "dir") || c.Pos != "last")
	// control: everything readable (a 60000-byte line is below the limit)
	if !strings.HasPrefix(c.Shape, "dir") && c.Shape != "long-heading" {
		mk("control", 60000)
		r := run()
		if r.Failed {
			return vFailf("%v fails (%s) on a file whose longest line has 60000 bytes", cmd.args, r.Err)
		}
	}
	mk(c.Shape, c.Size)
	r := run()
	if r.Panic != "" {
		return vFailf("%v panics: %s", cmd.args, vTrunc(r.Panic, 1000))
	}
	if !r.Failed {
		what := fmt.Sprintf("a %s of %d bytes (%s position)", strings.TrimPrefix(c.Shape, "long-"), c.Size, c.Pos)
		if strings.HasPrefix(c.Shape, "dir") {
			what = "a directory"
		}
		return vFailSig("C10/cli/"+c.Shape+"/exit-zero", "%v exits with success although its %s is %s and cannot be read completely; it printed:\n%s", cmd.args, which, what, vTrunc(r.Stdout, 800))
	}
	return nil
}

func c10CLISpace() []c10CLICase {
	var out []c10CLICase
	for ci := range c10CLICmds {
		for _, onLog := range []bool{true, false} {
			cm := c10CLICmds[ci]
			if (onLog && !cm.log) || (!onLog && !cm.book) {
				continue
			}
			out = append(out, c10CLICase{Cmd: ci, OnLog: onLog, Shape: "dir"})
			if cm.args[0] != "lint" {
				out = append(out, c10CLICase{Cmd: ci, OnLog: onLog, Shape: "dir", ViaConfig: true})
			}
			out = append(out, c10CLICase{Cmd: ci, OnLog: onLog, Shape: "dir-proc", Bin: ci%2 == 0})
			out = append(out, c10CLICase{Cmd: ci, OnLog: onLog, Shape: "fifo"})
			if vThorough() || ci%16 == 1 {
				out = append(out, c10CLICase{Cmd: ci, OnLog: onLog, Shape: "fifo", PauseMS: 11500})
			}
			if onLog && cm.book {
				out = append(out, c10CLICase{Cmd: ci, OnLog: onLog, Shape: "same-file"})
			}
			for _, sz := range []int{1<<20 + 300000, 5 << 20, 33<<20 + 700000} {
				if !vThorough() && ((sz > 2<<20 && sz < 30<<20) || ci%3 != 0 || (sz > 30<<20 && ci%12 != 0)) { // quick: 1.3 MB for every third command, 34 MB for every twelfth
					continue
				}
				out = append(out, c10CLICase{Cmd: ci, OnLog: onLog, Shape: "big-file", Size: sz})
				out = append(out, c10CLICase{Cmd: ci, OnLog: onLog, Shape: "big-file-bad-tail", Size: sz})
				if sz < 30<<20 {
					out = append(out, c10CLICase{Cmd: ci, OnLog: onLog, Shape: "big-file", Size: sz, Pos: "no-final-newline"})
					out = append(out, c10CLICase{Cmd: ci, OnLog: onLog, Shape: "big-file-bad-tail", Size: sz, Pos: "no-final-newline"})
				}
			}
			for si, sh := range c10Shapes[1:] {
				for zi, sz := range c10Sizes {
					for pi, pos := range c10Positions {
						if !vThorough() && (zi+pi+si+ci)%3 != 0 { // quick: a third of the matrix
							continue
						}
						out = append(out, c10CLICase{Cmd: ci, OnLog: onLog, Shape: sh, Size: sz, Pos: pos, Bin: (ci+zi+pi)%4 == 0})
					}
				}
			}
		}
	}
	for i := range out {
		if out[i].Shape == "dir" {
			out[i].Bin = i%2 == 0
		}
	}
	// variants: the fault lies behind the end of the requested period; the files carry their default names
	var extra []c10CLICase
	for _, c := range out {
		if c.Shape == "dir" || c.Shape == "dir-proc" || (strings.HasPrefix(c.Shape, "long-") && c.Pos == "last" && c.Size == 70*1024) {
			if c.OnLog && strings.HasPrefix(c.Shape, "long-") {
				e := c
				e.End = true
				extra = append(extra, e)
			}
			if c10CLICmds[c.Cmd].log && c10CLICmds[c.Cmd].args[0] != "summary" && c10CLICmds[c.Cmd].args[0] != "lint" && c10CLICmds[c.Cmd].args[0] != "stats" && !strings.Contains(strings.Join(c10CLICmds[c.Cmd].args, " "), " -b") && c.Shape != "dir-proc" {
				b := c
				b.Begin = true
				extra = append(extra, b)
			}
			if c.Shape != "dir-proc" {
				d := c
				d.Defaults = true
				d.Bin = !c.Bin
				extra = append(extra, d)
			}
		}
	}
	return append(out, extra...)
}

func init() {
	vRegister("C10", "c10.parser", checkC10Parser)
	vRegister("C10", "c10.commands", checkC10Cmd)
	vRegister("C10", "c10.cli", checkC10CLI)
}

func TestVerifC10Parser(t *testing.T) {
	vRapid(t, "C10", "c10.parser",
		"generated well-formed files (1-5 records quick / 1-12 thorough, wild names, every layout, comments, notes); for EVERY byte offset k in [0,len] the reader starts failing at k (error alone, or together with the last chunk, or a single failed read after which reading continues; scanner-sized, one-byte or drawn chunking; 9 error values incl. wrapped os.ErrClosed and wrapped io.EOF): ParseStreamCallback must return an error; control with a healthy reader of the same chunking must deliver exactly the AST; non-trivial = file with >=2 records (a plausible shortened result exists); evaluations count files, program_runs count (file, offset, mode) parses",
		vBudget(2400, 24000), genC10Parser, checkC10Parser)
}

func TestVerifC10Commands(t *testing.T) {
	if !vAPIGuard(t, "c10.commands") {
		return
	}
	vRapid(t, "C10", "c10.commands",
		"every exported command function taking readers (22 variants of Register, Balance, CSV*, Print, Summary, Report*, Lint) with the fault on its log or book reader at offsets {0, len, 4-12 drawn positions}; must return an error; control with healthy chunked readers must succeed",
		vBudget(4000, 64000), genC10Cmd, checkC10Cmd)
}

func TestVerifC10CLI(t *testing.T) {
	space := c10CLISpace()
	vEnum(t, "C10", "c10.cli",
		"16 commands x {log, book} x {directory given as file (also /proc, whose stat size is 0), named pipe as file (content must be taken into account), well-formed file of 1.3 MB / 5 MB (last record must be reported) and the same with a malformed last line (must fail), line of 64 KiB / 64 KiB+1 / 70 KiB / 200 KiB as entry, comment, note or heading at first, middle or last position}, in process and through the real binary; must exit non-zero; control: the same file with a 60000-byte line succeeds (quick tier: directory for every command + a third of the long-line matrix)",
		fmt.Sprintf("%d combinations", len(space)), len(space),
		func(i int) c10CLICase { return space[i] }, checkC10CLI)
}
