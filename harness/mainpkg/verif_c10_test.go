//go:build go1.21

package main

// C10 — unreadable input is an error, never a silently shortened report.

import (
	"errors"
	"fmt"
	"io"
	"os"
	"path/filepath"
	"strings"
	"syscall"
	"testing"
	"time"

	"pgregory.net/rapid"
)

// vFaultReader delivers data in chunks and starts failing at byte offset FailAt
// (FailAt > len(data): healthy, ends with io.EOF).
type vFaultReader struct {
	data     []byte
	pos      int
	failAt   int
	err      error
	chunks   []int // cyclic chunk sizes
	ci       int
	withLast bool // return the error together with the last chunk
}

func (r *vFaultReader) Read(p []byte) (int, error) {
	if len(p) == 0 {
		return 0, nil
	}
	limit := len(r.data)
	if r.failAt < limit {
		limit = r.failAt
	}
	if r.pos >= limit {
		if r.failAt <= len(r.data) {
			return 0, r.err
		}
		return 0, io.EOF
	}
	n := len(p)
	if len(r.chunks) > 0 {
		c := r.chunks[r.ci%len(r.chunks)]
		r.ci++
		if c < n {
			n = c
		}
	}
	if n > limit-r.pos {
		n = limit - r.pos
	}
	copy(p, r.data[r.pos:r.pos+n])
	r.pos += n
	if r.withLast && r.pos == limit && r.failAt <= len(r.data) {
		return n, r.err
	}
	return n, nil
}

var c10Errors = []error{io.ErrUnexpectedEOF, errors.New("verif: injected read error"), syscall.EISDIR, syscall.EIO}

type c10ParserCase struct {
	Doc    vDoc  `json:"doc"`
	Chunks []int `json:"chunks"` // empty = whatever the scanner asks for
	Err    int   `json:"err"`
}

func checkC10Parser(c c10ParserCase, ctx *vCtx) *vFailure {
	text := []byte(c.Doc.Render())
	want := c.Doc.Parsed()
	ctx.NonTrivial(len(want) >= 2)
	ctx.Labelf("err=%v", c10Errors[c.Err])
	if len(c.Chunks) == 1 && c.Chunks[0] == 1 {
		ctx.Label("one-byte-reads")
	}
	parse := func(r io.Reader) ([]vGotRec, error) {
		var recs []vGotRec
		err := vParseStreamStop(r, &recs)
		return recs, err
	}
	for k := 0; k <= len(text); k++ {
		for _, withLast := range []bool{false, true} {
			if withLast && k == 0 {
				continue
			}
			fr := &vFaultReader{data: text, failAt: k, err: c10Errors[c.Err], chunks: c.Chunks, withLast: withLast}
			recs, err := parse(fr)
			ctx.Run(1)
			if err == nil {
				return vFailSig("C10/parser/read-error-ignored", "the reader fails with %q at byte offset %d of %d (error delivered %s), but parsing reports success after %d of %d records — a silently shortened result.\nfile: %q", c10Errors[c.Err], k, len(text), map[bool]string{false: "alone", true: "together with the last bytes"}[withLast], len(recs), len(want), vTrunc(string(text), 600))
			}
		}
	}
	// control: a healthy reader with the same chunking succeeds and accounts for everything
	hr := &vFaultReader{data: text, failAt: len(text) + 1, chunks: c.Chunks}
	got, errs, ret := vParseAllReader(hr)
	ctx.Run(1)
	if f := vCompareParsed(want, got, errs, ret, "healthy reader with the same chunking"); f != nil {
		return f
	}
	return nil
}

func genC10Parser(t *rapid.T) c10ParserCase {
	lo := vLayoutOpts{EOL: []string{"", "\r\n", "mixed"}[rapid.IntRange(0, 2).Draw(t, "eol")]}
	maxRec := vPick(5, 12)
	pool := vGenNamePool(t, true, 4, "pool")
	var d vDoc
	nrec := rapid.IntRange(1, maxRec).Draw(t, "nrec")
	for i := 0; i < nrec; i++ {
		var lines []vLine
		ne := rapid.IntRange(0, 4).Draw(t, "nent")
		for k := 0; k < ne; k++ {
			lines = append(lines, vLine{Kind: vkEntry, Name: pool[rapid.IntRange(0, 3).Draw(t, "ei")], Num: vGenNumDecimal(t, "num"), L: vGenEntryLayout(t, lo, "el")})
		}
		d.Recs = append(d.Recs, vRec{Head: vGenName(t, true, "head"), HL: vGenHeadLayout(t, lo, "hl"), Lines: lines})
	}
	vDecorate(t, &d, lo, true, "deco")
	c := c10ParserCase{Doc: d, Err: rapid.IntRange(0, len(c10Errors)-1).Draw(t, "err")}
	switch rapid.IntRange(0, 3).Draw(t, "chunking") {
	case 0:
	case 1:
		c.Chunks = []int{1}
	default:
		c.Chunks = rapid.SliceOfN(rapid.IntRange(1, 64), 1, 6).Draw(t, "chunks")
	}
	return c
}

// ---------------------------------------------------------------------------
// command functions with a failing reader

type c10CmdCase struct {
	S        vScenario `json:"s"`
	Cmd      int       `json:"cmd"`
	OnLog    bool      `json:"onlog"`
	Permille []int     `json:"permille"` // fault offsets as fractions of the file length
	WithLast bool      `json:"withlast"`
	Chunks   []int     `json:"chunks"`
	Err      int       `json:"err"`
}

func checkC10Cmd(c c10CmdCase, ctx *vCtx) *vFailure {
	cmd := vAPICmds[c.Cmd]
	onLog := c.OnLog
	if !cmd.UsesLog {
		onLog = false
	}
	if !cmd.UsesDB {
		onLog = true
	}
	logText, bookText := []byte(c.S.Log.Render()), []byte(c.S.Book.Render())
	target := bookText
	if onLog {
		target = logText
	}
	x := "x"
	if len(c.S.Basics) > 0 {
		x = c.S.Basics[0]
	}
	ctx.Label("cmd:" + cmd.Name)
	ctx.NonTrivial(len(target) > 0)
	offsets := map[int]bool{0: true, len(target): true}
	for _, p := range c.Permille {
		offsets[p*len(target)/1000] = true
	}
	for k := range offsets {
		fr := &vFaultReader{data: target, failAt: k, err: c10Errors[c.Err], chunks: c.Chunks, withLast: c.WithLast && k > 0}
		var lr, dr io.Reader = strings.NewReader(string(logText)), strings.NewReader(string(bookText))
		if onLog {
			lr = fr
		} else {
			dr = fr
		}
		var out strings.Builder
		err, pan := vCallAPI(cmd, lr, dr, &out, x)
		ctx.Run(1)
		if pan != "" {
			return vFailf("%s panics when its %s reader fails at byte %d: %s", cmd.Name, map[bool]string{true: "log", false: "book"}[onLog], k, vTrunc(pan, 1000))
		}
		if err == nil {
			return vFailSig("C10/"+cmd.Name+"/read-error-ignored", "%s: the %s reader fails with %q at byte %d of %d, yet the command reports success with this report:\n%s", cmd.Name, map[bool]string{true: "log", false: "book"}[onLog], c10Errors[c.Err], k, len(target), vTrunc(out.String(), 1200))
		}
	}
	// control
	var out strings.Builder
	var lr, dr io.Reader = &vFaultReader{data: logText, failAt: len(logText) + 1, chunks: c.Chunks}, &vFaultReader{data: bookText, failAt: len(bookText) + 1, chunks: c.Chunks}
	err, pan := vCallAPI(cmd, lr, dr, &out, x)
	ctx.Run(1)
	if err != nil || pan != "" {
		return vFailf("%s fails with healthy readers (%v %s)", cmd.Name, err, pan)
	}
	return nil
}

func vCallAPI(cmd vAPICmd, lr, dr io.Reader, out io.Writer, x string) (err error, pan string) {
	defer func() {
		if r := recover(); r != nil {
			pan = fmt.Sprint(r)
		}
	}()
	err = cmd.Run(lr, dr, out, x)
	return
}

func genC10Cmd(t *rapid.T) c10CmdCase {
	exact := true
	s := vGenScenario(t, vScenOpts{MinDays: 1, MaxDays: 4, MaxEntries: 4, Exact: &exact})
	if len(s.Book.Recs) == 0 {
		s.Book.Recs = []vRec{{Head: "filler", HL: vLayout{EOL: "\n"}, Lines: []vLine{{Kind: vkEntry, Name: "x", Num: "1", L: vLayout{Indent: "  ", Sep: ": ", EOL: "\n"}}}}}
	}
	c := c10CmdCase{S: s, Cmd: rapid.IntRange(0, len(vAPICmds)-1).Draw(t, "cmd"), OnLog: rapid.Bool().Draw(t, "onlog"),
		Permille: rapid.SliceOfN(rapid.IntRange(0, 1000), 4, 12).Draw(t, "offsets"), WithLast: rapid.Bool().Draw(t, "withlast"),
		Err: rapid.IntRange(0, len(c10Errors)-1).Draw(t, "err")}
	if rapid.Bool().Draw(t, "chunked") {
		c.Chunks = rapid.SliceOfN(rapid.IntRange(1, 64), 1, 4).Draw(t, "chunks")
	}
	return c
}

// ---------------------------------------------------------------------------
// CLI level: long lines and directories

var c10CLICmds = []struct {
	args     []string
	log, book bool
}{
	{[]string{"reg", "--no-color"}, true, true},
	{[]string{"reg", "--use-old-reg-reporter"}, true, true},
	{[]string{"bal"}, true, true},
	{[]string{"bal", "-s", "x"}, true, true},
	{[]string{"csv", "log"}, true, false},
	{[]string{"csv", "database"}, false, true},
	{[]string{"csv", "database-resolved"}, false, true},
	{[]string{"print"}, true, false},
	{[]string{"summary", "2021/01/01"}, true, true},
	{[]string{"report", "totals"}, true, true},
	{[]string{"report", "quantity"}, true, false},
	{[]string{"report", "unresolved"}, true, true},
	{[]string{"report", "element-total", "x"}, false, true},
	{[]string{"stats"}, true, true},
	{[]string{"lint", "@LOG@"}, true, false},
	{[]string{"lint", "@BOOK@"}, false, true},
}

var c10Shapes = []string{"dir", "long-entry", "long-comment", "long-note", "long-heading"}
var c10Sizes = []int{64 * 1024, 64*1024 + 1, 70 * 1024, 200 * 1024}
var c10Positions = []string{"first", "middle", "last"}

type c10CLICase struct {
	Cmd   int    `json:"cmd"`
	OnLog bool   `json:"onlog"`
	Shape string `json:"shape"`
	Size  int    `json:"size"`
	Pos   string `json:"pos"`
	Bin   bool   `json:"bin"`
}

func c10LongFile(isLog bool, shape string, size int, pos string) string {
	var recs []string
	for i := 0; i < 3; i++ {
		if isLog {
			recs = append(recs, fmt.Sprintf("2021/01/0%d:\n  meal: %d\n  snack: 2\n", i+1, i+1))
		} else {
			recs = append(recs, fmt.Sprintf("meal%d:\n  x: %d\n  y: 2\n", i, i+1))
		}
	}
	var long string
	switch shape {
	case "long-entry":
		long = "  " + strings.Repeat("a", size-5) + ": 1\n"
	case "long-comment":
		long = "#" + strings.Repeat("c", size-1) + "\n"
	case "long-note":
		long = "  # " + strings.Repeat("n", size-4) + "\n"
	case "long-heading":
		long = strings.Repeat("h", size-1) + ":\n  x: 1\n"
	case "control":
		long = "  " + strings.Repeat("a", size-5) + ": 1\n"
	}
	ins := func(rec string) string { // put the long line right after the heading of rec
		i := strings.Index(rec, "\n") + 1
		if shape == "long-heading" {
			return long + rec
		}
		return rec[:i] + long + rec[i:]
	}
	switch pos {
	case "first":
		recs[0] = ins(recs[0])
	case "middle":
		recs[1] = ins(recs[1])
	default:
		if shape == "long-heading" {
			recs[2] = recs[2] + long
		} else {
			recs[2] = recs[2] + long
		}
	}
	return strings.Join(recs, "")
}

func checkC10CLI(c c10CLICase, ctx *vCtx) *vFailure {
	cmd := c10CLICmds[c.Cmd]
	onLog := c.OnLog
	if !cmd.log {
		onLog = false
	}
	if !cmd.book {
		onLog = true
	}
	logText := c10LongFile(true, "", 0, "")
	bookText := c10LongFile(false, "", 0, "")
	dir := filepath.Join(vScratchDir(), "c10-dir")
	_ = os.MkdirAll(dir, 0o755)
	lp, bp := vWriteFile("c10-log.yaml", logText), vWriteFile("c10-book.yaml", bookText)
	mk := func(shape string, size int) {
		if shape == "dir" {
			if onLog {
				lp = dir
			} else {
				bp = dir
			}
			return
		}
		if onLog {
			lp = vWriteFile("c10-log.yaml", c10LongFile(true, shape, size, c.Pos))
		} else {
			bp = vWriteFile("c10-book.yaml", c10LongFile(false, shape, size, c.Pos))
		}
	}
	run := func() vRun {
		args := make([]string, len(cmd.args))
		for i, a := range cmd.args {
			args[i] = strings.ReplaceAll(strings.ReplaceAll(a, "@LOG@", lp), "@BOOK@", bp)
		}
		inv := vInvocation{Args: append([]string{"--today", vToday, "-d", bp, "-l", lp}, args...)}
		ctx.Run(1)
		if c.Bin {
			r := vRunBin(inv, 30*time.Second)
			if r.Exit == -999 {
				vFault("real binary timed out")
			}
			return r
		}
		return vRunApp(inv)
	}
	which := map[bool]string{true: "log", false: "book"}[onLog]
	ctx.Label("shape:" + c.Shape)
	ctx.Label("cmd:" + strings.Join(cmd.args[:vMin(2, len(cmd.args))], " "))
	ctx.NonTrivial(c.Shape == "dir" || c.Pos != "last")
	// control: everything readable (a 60000-byte line is below the limit)
	if c.Shape != "dir" && c.Shape != "long-heading" {
		mk("control", 60000)
		r := run()
		if r.Failed {
			return vFailf("%v fails (%s) on a file whose longest line has 60000 bytes", cmd.args, r.Err)
		}
	}
	mk(c.Shape, c.Size)
	r := run()
	if r.Panic != "" {
		return vFailf("%v panics: %s", cmd.args, vTrunc(r.Panic, 1000))
	}
	if !r.Failed {
		what := fmt.Sprintf("a %s of %d bytes (%s position)", strings.TrimPrefix(c.Shape, "long-"), c.Size, c.Pos)
		if c.Shape == "dir" {
			what = "a directory"
		}
		return vFailSig("C10/cli/"+c.Shape+"/exit-zero", "%v exits with success although its %s is %s and cannot be read completely; it printed:\n%s", cmd.args, which, what, vTrunc(r.Stdout, 800))
	}
	return nil
}

func c10CLISpace() []c10CLICase {
	var out []c10CLICase
	for ci := range c10CLICmds {
		for _, onLog := range []bool{true, false} {
			cm := c10CLICmds[ci]
			if (onLog && !cm.log) || (!onLog && !cm.book) {
				continue
			}
			out = append(out, c10CLICase{Cmd: ci, OnLog: onLog, Shape: "dir"})
			for si, sh := range c10Shapes[1:] {
				for zi, sz := range c10Sizes {
					for pi, pos := range c10Positions {
						if !vThorough() && (zi+pi+si+ci)%3 != 0 { // quick: a third of the matrix
							continue
						}
						out = append(out, c10CLICase{Cmd: ci, OnLog: onLog, Shape: sh, Size: sz, Pos: pos, Bin: (ci+zi+pi)%4 == 0})
					}
				}
			}
		}
	}
	for i := range out {
		if out[i].Shape == "dir" {
			out[i].Bin = i%2 == 0
		}
	}
	return out
}

func init() {
	vRegister("C10", "c10.parser", checkC10Parser)
	vRegister("C10", "c10.commands", checkC10Cmd)
	vRegister("C10", "c10.cli", checkC10CLI)
}

func TestVerifC10Parser(t *testing.T) {
	vRapid(t, "C10", "c10.parser",
		"generated well-formed files (1-5 records quick / 1-12 thorough, wild names, every layout, comments, notes); for EVERY byte offset k in [0,len] the reader starts failing at k (error alone, or together with the last chunk; scanner-sized, one-byte or drawn chunking; 4 error values): ParseStreamCallback must return an error; control with a healthy reader of the same chunking must deliver exactly the AST; non-trivial = file with >=2 records (a plausible shortened result exists); evaluations count files, program_runs count (file, offset, mode) parses",
		vBudget(2400, 24000), genC10Parser, checkC10Parser)
}

func TestVerifC10Commands(t *testing.T) {
	vRapid(t, "C10", "c10.commands",
		"every exported command function taking readers (22 variants of Register, Balance, CSV*, Print, Summary, Report*, Lint) with the fault on its log or book reader at offsets {0, len, 4-12 drawn positions}; must return an error; control with healthy chunked readers must succeed",
		vBudget(4000, 64000), genC10Cmd, checkC10Cmd)
}

func TestVerifC10CLI(t *testing.T) {
	space := c10CLISpace()
	vEnum(t, "C10", "c10.cli",
		"16 commands x {log, book} x {directory given as file, line of 64 KiB / 64 KiB+1 / 70 KiB / 200 KiB as entry, comment, note or heading at first, middle or last position}, in process and through the real binary; must exit non-zero; control: the same file with a 60000-byte line succeeds (quick tier: directory for every command + a third of the long-line matrix)",
		fmt.Sprintf("%d combinations", len(space)), len(space),
		func(i int) c10CLICase { return space[i] }, checkC10CLI)
}
