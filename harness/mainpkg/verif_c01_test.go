//go:build go1.21

package main

// C01 — nested recipes resolve to the exact sum of products.
// C11 — depth limit: fail <=> cyclic or h_max >= N, independent of order.

import (
	"bufio"
	"fmt"
	"math/big"
	"os"
	"path/filepath"
	"runtime/debug"
	"sort"
	"strings"
	"testing"
	"time"

	shared "github.com/aquilax/hranoprovod-cli/v3"
	"github.com/aquilax/hranoprovod-cli/v3/resolver"
	"pgregory.net/rapid"
)

// vPermFromSeed: Fisher-Yates driven by splitmix64 — a pure function of the
// drawn seed, so the case stays replayable without the library.
func vPermFromSeed(n int, seed uint64) []int {
	p := vIota(n)
	s := seed
	for i := n - 1; i > 0; i-- {
		s = vSplitMix(s)
		j := int(s % uint64(i+1))
		p[i], p[j] = p[j], p[i]
	}
	return p
}

func vBuildDB(book []vPRec, order []int) shared.DBNodeMap {
	db := shared.NewDBNodeMap()
	for _, i := range order {
		r := book[i]
		n := shared.NewParserNode(r.Head)
		for _, e := range r.Entries {
			n.Elements.Add(e.Name, vNearest(e.Num))
		}
		db.Push(shared.NewDBNodeFromNode(n))
	}
	return db
}

func vResolveVia(entry int, db shared.DBNodeMap, n int) (out shared.DBNodeMap, err error) {
	// the library is called directly here: a panic inside it is a failure of the case, not of the harness
	defer func() {
		if r := recover(); r != nil {
			vViolate("resolving with MaxDepth=%d through entry point %d panics: %v\n%s", n, entry, r, vTrunc(string(debug.Stack()), 1500))
		}
	}()
	if entry == 0 {
		return resolver.Resolve(resolver.Config{MaxDepth: n}, db)
	}
	err = resolver.NewResolver(db, resolver.Config{MaxDepth: n}).Resolve()
	return db, err
}

// vCheckResolvedDB compares a resolved map with the rational model.
func vCheckResolvedDB(db shared.DBNodeMap, book []vPRec, m vResolved, exact bool, what string) *vFailure {
	if len(db) != len(m.Elems) {
		return vFailf("%s: %d recipes in the resolved book, %d expected", what, len(db), len(m.Elems))
	}
	for _, r := range book {
		node, ok := db[r.Head]
		if !ok {
			return vFailf("%s: recipe %q disappeared", what, r.Head)
		}
		want := m.Elems[r.Head]
		keys := vSortedKeys(want)
		var got []string
		for _, e := range node.Elements {
			got = append(got, e.Name)
		}
		if len(got) != len(keys) {
			return vFailf("%s: recipe %q resolves to elements %q, expected exactly %q", what, r.Head, got, keys)
		}
		for i, k := range keys {
			if got[i] != k {
				return vFailf("%s: recipe %q resolves to elements %q, expected exactly (sorted, no duplicates, no recipe names) %q", what, r.Head, got, keys)
			}
			v := node.Elements[i].Value
			w := want[k]
			if exact {
				g := new(big.Rat)
				if g.SetFloat64(v) == nil || g.Cmp(w.V) != 0 {
					return vFailf("%s: recipe %q element %q = %v, expected exactly %s", what, r.Head, k, v, w.V.FloatString(4))
				}
			} else if !vFloatClose(v, w) {
				return vFailf("%s: recipe %q element %q = %v, expected %s (sum over paths of products)", what, r.Head, k, v, w.V.FloatString(9))
			}
		}
	}
	return nil
}

func vDBEqual(a, b shared.DBNodeMap) bool {
	if len(a) != len(b) {
		return false
	}
	for k, na := range a {
		nb, ok := b[k]
		if !ok || len(na.Elements) != len(nb.Elements) {
			return false
		}
		for i := range na.Elements {
			if na.Elements[i] != nb.Elements[i] {
				return false
			}
		}
	}
	return true
}

func vCopyDB(a shared.DBNodeMap) shared.DBNodeMap {
	out := shared.NewDBNodeMap()
	for k, n := range a {
		nn := *n
		nn.Elements = append(shared.Elements(nil), n.Elements...)
		out[k] = &nn
	}
	return out
}

// ---------------------------------------------------------------------------
// C01

type c01Case struct {
	Book     vDoc   `json:"book"`
	N        int    `json:"n"`
	Exact    bool   `json:"exact"`
	PermSeed uint64 `json:"permseed"`
	CLI      bool   `json:"cli"`
}

func c01Shape(book []vPRec, m vResolved) (labels []string, nontrivial bool) {
	def := map[string]bool{}
	for _, r := range book {
		def[r.Head] = true
	}
	if m.HMax >= 2 {
		labels = append(labels, "depth>=2")
		nontrivial = true
	}
	labels = append(labels, fmt.Sprintf("hmax=%d", m.HMax))
	// paths count per (recipe, basic)
	paths := map[string]map[string]int{}
	var count func(name string) map[string]int
	defs := map[string][]vPEntry{}
	for _, r := range book {
		defs[r.Head] = r.Entries
	}
	count = func(name string) map[string]int {
		if p, ok := paths[name]; ok {
			return p
		}
		p := map[string]int{}
		paths[name] = p
		for _, e := range defs[name] {
			if def[e.Name] {
				for k, c := range count(e.Name) {
					p[k] += c
				}
			} else {
				p[e.Name]++
			}
		}
		return p
	}
	diamond, repeated, empty, zero, backward := false, false, false, false, false
	pos := map[string]int{}
	for i, r := range book {
		pos[r.Head] = i
	}
	for i, r := range book {
		for _, c := range count(r.Head) {
			if c >= 2 {
				diamond = true
			}
		}
		seen := map[string]bool{}
		if len(r.Entries) == 0 {
			empty = true
		}
		for _, e := range r.Entries {
			if seen[e.Name] {
				repeated = true
			}
			seen[e.Name] = true
			if vRat(e.Num).Sign() == 0 {
				zero = true
			}
			if def[e.Name] && pos[e.Name] < i {
				backward = true
			}
		}
	}
	for k, b := range map[string]bool{"multi-path": diamond, "repeated-ingredient": repeated, "empty-recipe": empty, "zero-coefficient": zero, "backward-reference": backward} {
		if b {
			labels = append(labels, k)
		}
	}
	if diamond || repeated {
		nontrivial = true
	}
	return
}

func checkC01(c c01Case, ctx *vCtx) *vFailure {
	book := c.Book.Parsed()
	if vDuplicateHeads(book) {
		ctx.Excluded("out-of-domain: duplicate heading")
		return nil
	}
	m := vModelResolve(book)
	if m.Cyclic || m.HMax >= c.N {
		ctx.Excluded("out-of-domain: not acyclic with h_max < N")
		return nil
	}
	labels, nt := c01Shape(book, m)
	for _, l := range labels {
		ctx.Label(l)
	}
	ctx.NonTrivial(nt)
	runs := vPick(8, 32)
	seed := c.PermSeed
	for r := 0; r < runs; r++ {
		seed = vSplitMix(seed)
		order := vPermFromSeed(len(book), seed)
		entry := r % 2
		db := vBuildDB(book, order)
		out, err := vResolveVia(entry, db, c.N)
		ctx.Run(1)
		what := fmt.Sprintf("entry point %d, run %d (insertion order %v)", entry, r, order)
		if err != nil {
			return vFailf("%s: error %v on an acyclic book with h_max=%d < N=%d", what, err, m.HMax, c.N)
		}
		if f := vCheckResolvedDB(out, book, m, c.Exact, what); f != nil {
			return f
		}
		// idempotence: resolving the resolved book changes nothing
		before := vCopyDB(out)
		out2, err := vResolveVia((entry+r/2)%2, out, c.N)
		ctx.Run(1)
		if err != nil {
			return vFailf("%s: resolving the already resolved book fails: %v", what, err)
		}
		if !vDBEqual(before, out2) {
			return vFailf("%s: resolving the already resolved book changed it", what)
		}
	}
	// a hand-built book in which a recipe and its synonym were made from the same Elements value (the two slices share
	// their backing array): each of them resolves as if it stood alone, whichever is visited first
	if len(book) > 0 {
		for r := 0; r < 2; r++ {
			seed = vSplitMix(seed)
			db := vBuildDB(book, vPermFromSeed(len(book), seed))
			book2 := append([]vPRec{}, book...)
			for k := 0; k < 3 && k < len(book); k++ {
				src := book[int(vSplitMix(seed+uint64(k))%uint64(len(book)))]
				syn := "syn~" + fmt.Sprint(k) + "~" + src.Head
				if _, dup := db[syn]; dup {
					continue
				}
				db.Push(&shared.DBNode{Header: syn, Elements: db[src.Head].Elements})
				book2 = append(book2, vPRec{Head: syn, Entries: src.Entries})
			}
			m2 := vModelResolve(book2)
			out, err := vResolveVia(r%2, db, c.N)
			ctx.Run(1)
			what := fmt.Sprintf("entry point %d, book with synonyms that share their ingredient list with the original (%d recipes)", r%2, len(book2))
			if err != nil {
				return vFailf("%s: error %v on an acyclic book with h_max=%d < N=%d", what, err, m2.HMax, c.N)
			}
			if f := vCheckResolvedDB(out, book2, m2, c.Exact, what); f != nil {
				return f
			}
		}
		ctx.Label("synonyms-sharing-storage")
	}
	// the deprecated Resolver object used twice: resolve, then define recipes for names that
	// were basic elements so far, then resolve again with the same object. The result must be
	// the resolution of the book as it is then.
	if f := c01Incremental(c, book, ctx); f != nil {
		return f
	}
	if c.CLI {
		if f := c01CLI(c, book, m, ctx); f != nil {
			return f
		}
	}
	return nil
}

func c01Incremental(c c01Case, book []vPRec, ctx *vCtx) *vFailure {
	m := vModelResolve(book)
	basics := map[string]bool{}
	for _, em := range m.Elems {
		for k := range em {
			basics[k] = true
		}
	}
	names := vSortedKeys(basics)
	if len(names) == 0 || m.HMax+2 >= c.N {
		return nil
	}
	// the second batch: every other basic element becomes a recipe over two fresh leaves
	var extra []vPRec
	for i, nm := range names {
		if i%2 == 0 {
			extra = append(extra, vPRec{Head: nm, Entries: []vPEntry{{"leaf~1", "2"}, {"leaf~2", "-1"}}})
		}
	}
	full := append(append([]vPRec{}, book...), extra...)
	want := vModelResolve(full)
	if want.Cyclic || want.HMax >= c.N {
		return nil
	}
	db := vBuildDB(book, vPermFromSeed(len(book), c.PermSeed))
	r := resolver.NewResolver(db, resolver.Config{MaxDepth: c.N})
	if err := r.Resolve(); err != nil {
		return vFailf("incremental use: first Resolve failed: %v", err)
	}
	for _, e := range extra {
		n := shared.NewParserNode(e.Head)
		for _, en := range e.Entries {
			n.Elements.Add(en.Name, vNearest(en.Num))
		}
		db.Push(shared.NewDBNodeFromNode(n))
	}
	err1 := r.Resolve()
	ctx.Run(2)
	ctx.Label("incremental-resolver-reuse")
	if err1 != nil {
		return vFailf("incremental use: Resolve on the extended book failed: %v (h_max=%d, N=%d)", err1, want.HMax, c.N)
	}
	if f := vCheckResolvedDB(db, full, want, c.Exact, "the same Resolver used again after recipes were added for names that were basic elements"); f != nil {
		return f
	}
	// the same Resolver after a refusal: a recipe gets a reference into a ring, Resolve is refused, the reference and
	// the ring are taken out again, and the second Resolve must give the book's resolution
	{
		db3 := vBuildDB(book, vPermFromSeed(len(book), c.PermSeed+1))
		top := book[int(c.PermSeed%uint64(len(book)))].Head
		for _, nm := range [][2]string{{"ring~a", "ring~b"}, {"ring~b", "ring~a"}} {
			n := shared.NewParserNode(nm[0])
			n.Elements.Add(nm[1], 1)
			db3.Push(shared.NewDBNodeFromNode(n))
		}
		db3[top].Elements = append(db3[top].Elements, shared.Element{Name: "ring~a", Value: 1})
		r3 := resolver.NewResolver(db3, resolver.Config{MaxDepth: c.N})
		errRing := r3.Resolve()
		ctx.Run(2)
		if errRing != nil { // (a ring that is accepted is C11's subject)
			delete(db3, "ring~a")
			delete(db3, "ring~b")
			var kept shared.Elements
			for _, e := range db3[top].Elements {
				if e.Name != "ring~a" {
					kept = append(kept, e)
				}
			}
			db3[top].Elements = kept
			if err := r3.Resolve(); err != nil {
				return vFailf("the same Resolver used again after a refused Resolve (a ring below %q, taken out again afterwards): %v on a book with h_max=%d < N=%d", top, err, m.HMax, c.N)
			}
			if f := vCheckResolvedDB(db3, book, m, c.Exact, "the same Resolver used again after a refused Resolve whose cause was taken out of the book"); f != nil {
				return f
			}
			ctx.Label("resolver-reuse-after-refusal")
		}
	}
	// the function entry point on the same situation
	db2 := vBuildDB(book, vPermFromSeed(len(book), c.PermSeed))
	if _, err := resolver.Resolve(resolver.Config{MaxDepth: c.N}, db2); err != nil {
		return vFailf("incremental use: Resolve failed: %v", err)
	}
	for _, e := range extra {
		n := shared.NewParserNode(e.Head)
		for _, en := range e.Entries {
			n.Elements.Add(en.Name, vNearest(en.Num))
		}
		db2.Push(shared.NewDBNodeFromNode(n))
	}
	if _, err := resolver.Resolve(resolver.Config{MaxDepth: c.N}, db2); err != nil {
		return vFailf("incremental use: second Resolve failed: %v", err)
	}
	return vCheckResolvedDB(db2, full, want, c.Exact, "Resolve called again after recipes were added for names that were basic elements")
}

func c01CLI(c c01Case, book []vPRec, m vResolved, ctx *vCtx) *vFailure {
	ctx.Label("cli")
	p := vWriteFile("c01-book.yaml", c.Book.Render())
	// a configuration file with a depth of 1 is named too: the limit given on the command line must win, whatever its value
	decoy := vWriteFile("c01-decoy.conf", "[Resolver]\nMaxDepth=1\n")
	r := vRunApp(vInvocation{Args: []string{"--config", decoy, "--maxdepth", fmt.Sprint(c.N), "-d", p, "csv", "database-resolved"}})
	ctx.Run(1)
	if r.Failed {
		return vFailf("csv database-resolved failed on an acyclic book (h_max=%d, N=%d): %s", m.HMax, c.N, r)
	}
	rows, err := vReadCSV(r.Stdout)
	if err != nil {
		return vFailf("csv database-resolved output is not RFC 4180: %v", err)
	}
	type want struct {
		rec, el string
		v       vVal
	}
	var ws []want
	for _, rec := range vSortedKeys(m.Elems) {
		for _, el := range vSortedKeys(m.Elems[rec]) {
			ws = append(ws, want{rec, el, m.Elems[rec][el]})
		}
	}
	if len(rows) != len(ws) {
		return vFailf("csv database-resolved: %d rows expected, got %d\n%s", len(ws), len(rows), vTrunc(r.Stdout, 1500))
	}
	for i, w := range ws {
		g := rows[i]
		if len(g) != 3 || g[0] != w.rec || g[1] != w.el || !vValClose(g[2], w.v, 2) {
			return vFailf("csv database-resolved row %d: got %q, expected (%q, %q, %s)", i, g, w.rec, w.el, w.v)
		}
	}
	// report element-total X for every basic element
	basics := map[string]bool{}
	for _, em := range m.Elems {
		for k := range em {
			basics[k] = true
		}
	}
	for _, x := range vSortedKeys(basics) {
		if strings.HasPrefix(x, "-") || x == "h" || x == "help" { // urfave/cli takes these as the help command
			continue
		}
		inv := vInvocation{Args: []string{"--config", decoy, "--maxdepth", fmt.Sprint(c.N), "-d", p, "report", "element-total", x}}
		if len(x)%2 == 1 {
			inv = vInvocation{Args: []string{"--config", decoy, "-d", p, "report", "element-total", x}, Env: map[string]string{"HR_MAXDEPTH": fmt.Sprint(c.N)}}
		}
		r := vRunApp(inv)
		ctx.Run(1)
		if r.Failed {
			return vFailf("report element-total %q failed: %s", x, r)
		}
		wantRows := map[string]vVal{}
		for rec, em := range m.Elems {
			if v, ok := em[x]; ok {
				wantRows[rec] = v
			}
		}
		lines := strings.Split(strings.TrimSuffix(r.Stdout, "\n"), "\n")
		if r.Stdout == "" {
			lines = nil
		}
		if len(lines) != len(wantRows) {
			return vFailf("report element-total %q: %d rows expected, got %d:\n%s", x, len(wantRows), len(lines), r.Stdout)
		}
		seen := map[string]bool{}
		for _, ln := range lines {
			tab := strings.IndexByte(ln, '\t')
			if tab < 0 {
				return vFailf("report element-total %q: unreadable row %q", x, ln)
			}
			name := ln[tab+1:]
			w, ok := wantRows[name]
			if !ok || seen[name] || !vValClose(ln[:tab], w, 2) {
				return vFailf("report element-total %q: row %q does not match the model (%v)", x, ln, w)
			}
			seen[name] = true
		}
	}
	return nil
}

func genC01(t *rapid.T) c01Case {
	n := rapid.IntRange(2, 12).Draw(t, "N")
	exact := rapid.Bool().Draw(t, "exact")
	maxd := n - 1
	if maxd > 9 {
		maxd = 9
	}
	cli := rapid.IntRange(0, 9).Draw(t, "cli") == 0
	lo := vLayoutOpts{Plain: !cli}
	book, _ := vGenBook(t, vBookOpts{MaxRecipes: 12, MaxDepth: maxd, Wild: true, Exact: exact, Layout: lo}, "book")
	// one case in eight: beside the random recipes, a chain nested exactly as deep as the limit allows (N-1
	// references), ending in a basic element or in a recipe without entries
	if rapid.IntRange(0, 7).Draw(t, "deepchain") == 0 {
		var chain []vRec
		if rapid.Bool().Draw(t, "toempty") {
			chain = c11ChainToEmpty("deep~", n-1)
		} else {
			chain = c11Chain("deep~", n-1)
		}
		for ci := range chain { // the leaf of the chain must be a basic element whatever the random part defines
			for li := range chain[ci].Lines {
				if chain[ci].Lines[li].Name == "x" {
					chain[ci].Lines[li].Name = "leaf~x"
				}
			}
		}
		book.Recs = append(book.Recs, chain...)
		book.NoFinalNL = false
		if len(book.Recs) > 1 {
			perm := rapid.Permutation(vIota(len(book.Recs))).Draw(t, "chainperm")
			nr := make([]vRec, len(perm))
			for i, p := range perm {
				nr[i] = book.Recs[p]
			}
			book.Recs = nr
		}
	}
	return c01Case{Book: book, N: n, Exact: exact, PermSeed: rapid.Uint64().Draw(t, "permseed"), CLI: cli}
}

// exhaustive: all books with <= 3 recipes over 2 basics, <= 2 ingredients per
// recipe, coefficients {-1, 2}; references only to recipes of lower index.
type c01EnumCase struct {
	Code []int `json:"code"` // per recipe: list of ingredient codes
	NRec int   `json:"nrec"`
	Idx  int   `json:"idx"`
}

func c01EnumBooks() []vDoc {
	recNames := []string{"r0", "r1", "r2"}
	basics := []string{"x", "y"}
	coefs := []string{"-1", "2"}
	var all []vDoc
	// ingredient options for recipe i: basics + recipes j<i, each with 2 coefs
	var build func(i, nrec int, cur []vRec)
	build = func(i, nrec int, cur []vRec) {
		if i == nrec {
			// two declaration orders: as is and reversed
			d := vDoc{Recs: append([]vRec(nil), cur...)}
			all = append(all, d)
			rev := make([]vRec, len(cur))
			for k := range cur {
				rev[len(cur)-1-k] = cur[k]
			}
			if nrec > 1 {
				all = append(all, vDoc{Recs: rev})
			}
			return
		}
		var opts []vLine
		names := append([]string{}, basics...)
		names = append(names, recNames[:i]...)
		for _, nm := range names {
			for _, cf := range coefs {
				opts = append(opts, vLine{Kind: vkEntry, Name: nm, Num: cf, L: vLayout{Indent: "  ", Sep: ": ", EOL: "\n"}})
			}
		}
		// 0, 1 or 2 ingredients (ordered pairs, repetition allowed)
		build(i+1, nrec, append(cur, vRec{Head: recNames[i], HL: vLayout{EOL: "\n"}}))
		for a := range opts {
			build(i+1, nrec, append(cur, vRec{Head: recNames[i], HL: vLayout{EOL: "\n"}, Lines: []vLine{opts[a]}}))
			for b := range opts {
				build(i+1, nrec, append(cur, vRec{Head: recNames[i], HL: vLayout{EOL: "\n"}, Lines: []vLine{opts[a], opts[b]}}))
			}
		}
	}
	for nrec := 1; nrec <= 3; nrec++ {
		build(0, nrec, nil)
	}
	return all
}

var c01EnumCache []vDoc

func init() {
	vRegister("C01", "c01.random", checkC01)
	vRegister("C01", "c01.enum", checkC01)
}

func TestVerifC01Random(t *testing.T) {
	vRapid(t, "C01", "c01.random",
		"random acyclic recipe books (<=12 recipes, levels < N-1, N in 2..12, wild names, repeated ingredients, zero/negative coefficients, empty recipes, random declaration order), each resolved 8 (quick) / 32 (thorough) times on fresh maps filled in random insertion orders, alternating both entry points, plus idempotence, 10% also through csv database-resolved and report element-total; oracle = math/big resolver; non-trivial = depth >= 2 or an element reached by >= 2 paths or a repeated ingredient",
		vBudget(12000, 320000), genC01, checkC01)
}

func TestVerifC01Enum(t *testing.T) {
	if !vThorough() {
		t.Skip("exhaustive sub-scope runs in the thorough tier")
	}
	if c01EnumCache == nil {
		c01EnumCache = c01EnumBooks()
	}
	vEnum(t, "C01", "c01.enum",
		"all books with <=3 recipes over 2 basic names, <=2 ingredients per recipe (ordered, repetition allowed), coefficients {-1,2}, references to lower-index recipes, two declaration orders",
		"books with <=3 recipes, <=2 ingredients", len(c01EnumCache),
		func(i int) c01Case {
			return c01Case{Book: c01EnumCache[i], N: 4, Exact: true, PermSeed: uint64(i) * 7919}
		}, checkC01)
}

// ---------------------------------------------------------------------------
// C11

type c11Case struct {
	Book     vDoc   `json:"book"`
	N        int    `json:"n"`
	PermSeed uint64 `json:"permseed"`
	CLI      bool   `json:"cli"`
	Shape    string `json:"shape"`
}

func vIsDepthError(msg string) bool {
	l := strings.ToLower(msg)
	return strings.Contains(l, "depth")
}

// vDuplicateHeads: a book that declares a heading twice is outside the domain of C01/C11 (which declaration wins is
// not stated). The generators avoid it by construction; should one slip through it is counted as excluded, not judged.
func vDuplicateHeads(book []vPRec) bool {
	seen := map[string]bool{}
	for _, r := range book {
		if seen[r.Head] {
			return true
		}
		seen[r.Head] = true
	}
	return false
}

func checkC11(c c11Case, ctx *vCtx) *vFailure {
	book := c.Book.Parsed()
	if vDuplicateHeads(book) {
		ctx.Excluded("out-of-domain: duplicate heading")
		return nil
	}
	m := vModelResolve(book)
	wantFail := m.Cyclic || m.HMax >= c.N
	ctx.Label(c.Shape)
	if m.Cyclic {
		ctx.Label("cyclic")
	} else {
		ctx.Labelf("hmax-N=%d", m.HMax-c.N)
	}
	d := m.HMax - c.N
	ctx.NonTrivial(m.Cyclic || (d >= -2 && d <= 2))
	// known finding (until repaired): acyclic books with h_max >= N >= 3 fail or
	// succeed depending on the visiting order.
	orderDependentClass := !m.Cyclic && m.HMax >= c.N && c.N >= 3
	if orderDependentClass && vKnown["C11/order-dependent/acyclic/h>=N>=3"] {
		ctx.Excluded("C11/order-dependent/acyclic/h>=N>=3")
		return nil
	}
	runs := vPick(24, 64)
	seed := c.PermSeed
	var firstOutcome string
	for r := 0; r < runs; r++ {
		seed = vSplitMix(seed)
		order := vPermFromSeed(len(book), seed)
		entry := r % 2
		db := vBuildDB(book, order)
		out, err := vResolveVia(entry, db, c.N)
		ctx.Run(1)
		outcome := "ok"
		if err != nil {
			outcome = "error: " + err.Error()
		}
		what := fmt.Sprintf("entry point %d, run %d, insertion order %v", entry, r, order)
		if r == 0 {
			firstOutcome = outcome
		} else if (outcome == "ok") != (firstOutcome == "ok") {
			return vFailSig(c11Sig(orderDependentClass), "outcome differs between runs of the same book with N=%d (h_max=%d cyclic=%v): first run %q, %s %q", c.N, m.HMax, m.Cyclic, firstOutcome, what, outcome)
		}
		if wantFail && err == nil {
			return vFailSig(c11Sig(orderDependentClass), "%s: resolution succeeded although cyclic=%v h_max=%d >= N=%d", what, m.Cyclic, m.HMax, c.N)
		}
		if !wantFail && err != nil {
			return vFailf("%s: resolution failed (%v) although the book is acyclic with h_max=%d < N=%d", what, err, m.HMax, c.N)
		}
		if err != nil && !vIsDepthError(err.Error()) {
			return vFailf("%s: failed with %q, expected the maximum-depth error", what, err)
		}
		if err == nil && r < 2 {
			if f := vCheckResolvedDB(out, book, m, false, what); f != nil {
				return f
			}
		}
	}
	if c.CLI {
		p := vWriteFile("c11-book.yaml", c.Book.Render())
		lg := vWriteFile("c11-log.yaml", "2021/01/01:\n  zz: 1\n")
		x := "x"
		cmds := [][]string{{"csv", "database-resolved"}, {"reg", "--no-color"}, {"bal"}, {"report", "totals"}, {"report", "element-total", x}, {"report", "unresolved"}, {"summary", "2021/01/01"},
			{"reg", "-f", "."}, {"reg", "-s", x}, {"reg", "-s", x, "-g"}, {"reg", "--use-old-reg-reporter"}, {"reg", "--totals-only"}, {"bal", "-s", x}, {"bal", "-c"}, {"bal", "--collapse-last"}, {"reg", "-b", "2021/01/01"},
			{"reg", "-s", x, "-f", "."}, {"reg", "-f", "zz", "-s", x, "-g"}, {"bal", "-b", "2021/01/01", "-s", x}, {"reg", "--no-totals"}, {"reg", "--internal-template-name", "left-aligned"}, {"reg", "--shorten"}}
		// a configuration file with another depth: the flag / environment value must win, also when it equals the default
		other := c.N + 3
		if c.N > 6 {
			other = c.N - 5
		}
		cfgp := vWriteFile("c11.conf", fmt.Sprintf("[Resolver]\nMaxDepth=%d\n", other))
		cfgOnly := vWriteFile("c11-only.conf", fmt.Sprintf("[Resolver]\nMaxDepth=%d\n", c.N))
		// which source carries the limit for which command, and the order of the commands, vary from case to case
		// (an invocation must not depend on what an earlier invocation of the process was given)
		// an unrelated invocation under another limit first: it must leave nothing behind in the process
		_ = vRunApp(vInvocation{Args: []string{"-d", p, "-l", lg, "csv", "database"}, Env: map[string]string{"HR_MAXDEPTH": fmt.Sprint(other)}})
		order := vPermFromSeed(len(cmds), c.PermSeed^0x9e3779b97f4a7c15)
		for _, i := range order {
			cmd := cmds[i]
			inv := vInvocation{Args: append([]string{"--maxdepth", fmt.Sprint(c.N), "-d", p, "-l", lg}, cmd...)}
			switch (i + int(c.PermSeed%4)) % 4 {
			case 1:
				inv = vInvocation{Args: append([]string{"-d", p, "-l", lg}, cmd...), Env: map[string]string{"HR_MAXDEPTH": fmt.Sprint(c.N)}}
			case 2:
				inv = vInvocation{Args: append([]string{"--config", cfgp, "--maxdepth", fmt.Sprint(c.N), "-d", p, "-l", lg}, cmd...)}
			case 3:
				inv = vInvocation{Args: append([]string{"--config", cfgOnly, "-d", p, "-l", lg}, cmd...)}
			}
			if i%3 == 0 {
				// a switch given with the value false is a switch not given
				inv.Args = append([]string{[]string{"--no-database=false", "--no-database=0", "--no-color=false"}[i/3%3]}, inv.Args...)
			}
			for rep := 0; rep < 3; rep++ {
				r := vRunApp(inv)
				ctx.Run(1)
				if r.Panic != "" {
					return vFailf("%v panicked: %s", inv.Args, r.Panic)
				}
				if wantFail != r.Failed {
					return vFailSig(c11Sig(orderDependentClass), "%v (env %v): failed=%v (%q) but cyclic=%v h_max=%d N=%d", inv.Args, inv.Env, r.Failed, r.Err, m.Cyclic, m.HMax, c.N)
				}
				if r.Failed && !vIsDepthError(r.Err) {
					return vFailf("%v: failed with %q, expected the maximum-depth error", inv.Args, r.Err)
				}
			}
		}
		ctx.Label("cli")
	}
	return nil
}

func c11Sig(orderClass bool) string {
	if orderClass {
		return "C11/order-dependent/acyclic/h>=N>=3"
	}
	return ""
}

func c11Entry(name, num string) vLine {
	return vLine{Kind: vkEntry, Name: name, Num: num, L: vLayout{Indent: "  ", Sep: ": ", EOL: "\n"}}
}

// c11Chain: r0 -> r1 -> ... -> r(L-1) -> x  has h = L (L references); L = 0 is an empty recipe.
func c11Chain(prefix string, L int) []vRec {
	if L == 0 {
		return []vRec{{Head: prefix + "0", HL: vLayout{EOL: "\n"}}}
	}
	var recs []vRec
	for i := 0; i < L; i++ {
		next := fmt.Sprintf("%s%d", prefix, i+1)
		if i == L-1 {
			next = "x"
		}
		coef := "2"
		if L > 40 {
			coef = "1" // 2^L would leave the float64 range on long chains
		}
		recs = append(recs, vRec{Head: fmt.Sprintf("%s%d", prefix, i), HL: vLayout{EOL: "\n"}, Lines: []vLine{c11Entry(next, coef)}})
	}
	return recs
}

// c11ChainToEmpty: r0 -> ... -> r(L-1) -> e where e is a recipe without entries: h = L.
func c11ChainToEmpty(prefix string, L int) []vRec {
	recs := c11Chain(prefix, L)
	if L == 0 {
		return recs
	}
	e := prefix + "empty"
	recs[L-1].Lines[0].Name = e
	return append(recs, vRec{Head: e, HL: vLayout{EOL: "\n"}})
}

// c11Cycle: entry path e0 -> ... -> e(D-1) -> c0 -> c1 -> ... -> c(K-1) -> c0
func c11Cycle(K, D int) []vRec {
	var recs []vRec
	for i := 0; i < D; i++ {
		next := fmt.Sprintf("e%d", i+1)
		if i == D-1 {
			next = "c0"
		}
		recs = append(recs, vRec{Head: fmt.Sprintf("e%d", i), HL: vLayout{EOL: "\n"}, Lines: []vLine{c11Entry(next, "1"), c11Entry("x", "1")}})
	}
	for i := 0; i < K; i++ {
		recs = append(recs, vRec{Head: fmt.Sprintf("c%d", i), HL: vLayout{EOL: "\n"}, Lines: []vLine{c11Entry("y", "1"), c11Entry(fmt.Sprintf("c%d", (i+1)%K), "1")}})
	}
	return recs
}

func genC11(t *rapid.T) c11Case {
	n := rapid.IntRange(1, 12).Draw(t, "N")
	c := c11Case{N: n, PermSeed: rapid.Uint64().Draw(t, "permseed"), CLI: rapid.IntRange(0, 14).Draw(t, "cli") == 0}
	var recs []vRec
	switch rapid.IntRange(0, 6).Draw(t, "shape") {
	case 6: // a ring nothing leads into, beside an acyclic part with much sharing (recipes used by several recipes, used
		// directly and through another recipe, listed on several lines)
		c.Shape = "isolated-cycle+sharing"
		recs = c11Cycle(rapid.IntRange(1, 6).Draw(t, "K"), 0)
		nshare := rapid.IntRange(1, 5).Draw(t, "nshare")
		for i := 0; i < nshare; i++ {
			base := fmt.Sprintf("sh~%d", i)
			recs = append(recs,
				vRec{Head: base + "a", HL: vLayout{EOL: "\n"}, Lines: []vLine{c11Entry("x", "1")}},
				vRec{Head: base + "b", HL: vLayout{EOL: "\n"}, Lines: []vLine{c11Entry(base+"a", "1"), c11Entry(base+"a", "2")}},
				vRec{Head: base + "c", HL: vLayout{EOL: "\n"}, Lines: []vLine{c11Entry(base+"a", "1"), c11Entry(base+"b", "1"), c11Entry(base+"b", "3")}})
		}
	case 0: // pure chain(s)
		c.Shape = "chain"
		L := n + rapid.IntRange(-3, 3).Draw(t, "dL")
		if L < 0 {
			L = 0
		}
		recs = c11Chain("r", L)
		if rapid.IntRange(0, 2).Draw(t, "toempty") == 0 {
			c.Shape = "chain-to-empty-recipe"
			recs = c11ChainToEmpty("r", L)
		}
		if rapid.Bool().Draw(t, "second") {
			recs = append(recs, c11Chain("s", rapid.IntRange(0, n+1).Draw(t, "L2"))...)
		}
	case 1: // chain with side branches and sharing
		c.Shape = "chain+branches"
		L := n + rapid.IntRange(-2, 2).Draw(t, "dL")
		if L < 1 {
			L = 1
		}
		recs = c11Chain("r", L)
		for i := range recs {
			if rapid.Bool().Draw(t, "side") {
				recs[i].Lines = append(recs[i].Lines, c11Entry([]string{"x", "y", "z"}[rapid.IntRange(0, 2).Draw(t, "sb")], "1.5"))
			}
			if i+2 < len(recs) && rapid.IntRange(0, 2).Draw(t, "skip") == 0 {
				j := rapid.IntRange(i+2, len(recs)-1).Draw(t, "skipto")
				recs[i].Lines = append([]vLine{c11Entry(recs[j].Head, "3")}, recs[i].Lines...)
			}
		}
	case 2, 3: // random DAG with h_max near N
		c.Shape = "dag"
		maxd := n + rapid.IntRange(-2, 2).Draw(t, "dH")
		if maxd < 1 {
			maxd = 1
		}
		book, _ := vGenBook(t, vBookOpts{MaxRecipes: 14, MaxDepth: maxd, Wild: false, Exact: true, Layout: vLayoutOpts{Plain: true}}, "book")
		recs = book.Recs
		// force the depth: add a chain of length maxd in half of the cases
		if rapid.Bool().Draw(t, "force") {
			recs = append(recs, c11Chain("q~", maxd)...) // "~" never occurs in generated names: no duplicate headings
		}
	default: // cycles
		c.Shape = "cycle"
		K := rapid.IntRange(1, 6).Draw(t, "K")
		D := rapid.IntRange(0, n+1).Draw(t, "D")
		recs = c11Cycle(K, D)
		if rapid.Bool().Draw(t, "beside") {
			recs = append(recs, c11Chain("r", rapid.IntRange(0, n+1).Draw(t, "L"))...)
		}
	}
	// one book in four writes its recipe names as category paths with an empty or blank segment ("meal//r3", "a/ /r3"):
	// a name is looked up as it is written
	if c.Shape != "dag" && rapid.IntRange(0, 3).Draw(t, "oddpaths") == 0 {
		pre := []string{"meal//", "a/ /", "/", "x/./", "m/"}[rapid.IntRange(0, 4).Draw(t, "oddprefix")]
		isHead := map[string]bool{}
		for _, r := range recs {
			isHead[r.Head] = true
		}
		for ri := range recs {
			recs[ri].Head = pre + recs[ri].Head
			for li := range recs[ri].Lines {
				if isHead[recs[ri].Lines[li].Name] {
					recs[ri].Lines[li].Name = pre + recs[ri].Lines[li].Name
				}
			}
		}
	}
	if len(recs) > 1 {
		perm := rapid.Permutation(vIota(len(recs))).Draw(t, "decl")
		nr := make([]vRec, len(recs))
		for i, p := range perm {
			nr[i] = recs[p]
		}
		recs = nr
	}
	if rapid.IntRange(0, 3).Draw(t, "cancelpairs") == 0 {
		// references listed twice with quantities that cancel exactly ("stock: 1" ... "stock: -1"): still references
		for ri := range recs {
			var out []vLine
			for _, ln := range recs[ri].Lines {
				out = append(out, ln)
				if ln.Kind == vkEntry && !strings.HasPrefix(ln.Num, "-") && rapid.Bool().Draw(t, "cancelhere") {
					out = append(out, c11Entry(ln.Name, "-"+ln.Num))
				}
			}
			recs[ri].Lines = out
		}
	}
	if len(recs) > 0 && rapid.IntRange(0, 9).Draw(t, "bomname") == 0 {
		// the file begins with the character U+FEFF: it belongs to the first heading, which therefore is not the recipe
		// the other lines mean when they write the name without it
		recs[0].Head = "\ufeff" + recs[0].Head
	}
	c.Book = vDoc{Recs: recs}
	if rapid.IntRange(0, 2).Draw(t, "decorated") == 0 {
		// blank lines, column-0 comments of any content and notes between the lines: they are no part of any recipe
		lo := vLayoutOpts{EOL: []string{"", "\r\n", "mixed"}[rapid.IntRange(0, 2).Draw(t, "decoeol")]}
		if rapid.Bool().Draw(t, "relayout") {
			// every way an ingredient line may be written (tabs, list dashes, quotes, a dash or blanks before the colon):
			// the reference is the same reference
			for ri := range c.Book.Recs {
				c.Book.Recs[ri].HL = vGenHeadLayout(t, lo, "rehl")
				for li := range c.Book.Recs[ri].Lines {
					if c.Book.Recs[ri].Lines[li].Kind == vkEntry {
						c.Book.Recs[ri].Lines[li].L = vGenEntryLayout(t, lo, "reel")
					}
				}
			}
		}
		vDecorate(t, &c.Book, lo, true, "deco")
	}
	return c
}

type c11EnumSpec struct {
	N, Kind, A, B int
}

func c11EnumSpace(maxN int) []c11EnumSpec {
	var out []c11EnumSpec
	// limits far above the default: chains just below, at and above the limit, and a cycle
	for _, n := range []int{99, 100, 101, 999, 1000, 1001, 1500} {
		for _, dl := range []int{-2, -1, 0, 1} {
			out = append(out, c11EnumSpec{n, 0, n + dl, 0})
		}
		out = append(out, c11EnumSpec{n, 1, 3, 2})
		out = append(out, c11EnumSpec{n, 2, n - 1, 0})
	}
	// limits chosen to switch the limit off: short chains resolve, cycles are still rejected
	for _, n := range []int{1 << 32, 1 << 59, 1 << 62, 1<<63 - 1} {
		out = append(out, c11EnumSpec{n, 0, 5, 0}, c11EnumSpec{n, 0, 40, 0}, c11EnumSpec{n, 1, 3, 2}, c11EnumSpec{n, 2, 7, 0})
	}
	for n := 1; n <= maxN; n++ {
		for L := 0; L <= n+3; L++ {
			out = append(out, c11EnumSpec{n, 0, L, 0})
		}
		for L := 1; L <= n+2; L++ {
			out = append(out, c11EnumSpec{n, 2, L, 0})
		}
		for L := vMax(1, n-1); L <= n+1; L++ {
			for _, w := range []int{2, 31, 32, 33, 64, 65, 130} {
				out = append(out, c11EnumSpec{n, 3, L, w})
			}
		}
		for K := 1; K <= 4; K++ {
			for D := 0; D <= 3; D++ {
				out = append(out, c11EnumSpec{n, 1, K, D})
			}
		}
	}
	return out
}

func init() {
	vRegister("C11", "c11.random", checkC11)
	vRegister("C11", "c11.bigbook", checkC11Big)
	vRegister("C11", "c11.longchain", checkC11Long)
	vRegister("C11", "c11.enum", checkC11)
}

// ---------------------------------------------------------------------------
// a recipe book whose last recipes lie behind more than 128 MiB (256 MiB) of comment lines: a cycle there is still a cycle

type c11BigCase struct {
	MiB int `json:"mib"`
	Cmd int `json:"cmd"`
}

var c11BigCmds = [][]string{{"csv", "database-resolved"}, {"reg", "--no-color"}, {"report", "element-total", "x"}}

func checkC11Big(c c11BigCase, ctx *vCtx) *vFailure {
	p := filepath.Join(vScratchDir(), "c11-big-book.yaml")
	f, err := os.Create(p)
	if err != nil {
		vFault("create: %v", err)
	}
	w := bufio.NewWriterSize(f, 1<<20)
	fmt.Fprint(w, "first:\n  x: 1\n")
	line := "#" + strings.Repeat("c", 59998) + "\n"
	for n := 0; n < c.MiB<<20; n += len(line) {
		w.WriteString(line)
	}
	fmt.Fprint(w, "ring~a:\n  ring~b: 1\nring~b:\n  ring~a: 2\n")
	if err := w.Flush(); err != nil {
		vFault("write: %v", err)
	}
	f.Close()
	defer os.Remove(p)
	lp := vWriteFile("c11-big-log.yaml", "2021/01/01:\n  first: 1\n")
	cmd := c11BigCmds[c.Cmd%len(c11BigCmds)]
	r := vRunApp(vInvocation{Args: append([]string{"--today", vToday, "-d", p, "-l", lp}, cmd...)})
	ctx.Run(1)
	ctx.NonTrivial(true)
	ctx.Labelf("book>=%dMiB", c.MiB)
	if r.Panic != "" {
		return vFailf("%v panics on a %d MiB recipe book: %s", cmd, c.MiB, vTrunc(r.Panic, 800))
	}
	if !r.Failed || !vIsDepthError(r.Err) {
		return vFailf("%v on a recipe book whose last two recipes (behind %d MiB of comment lines) form a cycle: failed=%v, error %q (expected the maximum-depth error)", cmd, c.MiB, r.Failed, vTrunc(r.Err, 300))
	}
	return nil
}

// a very long acyclic chain through the real binary (whatever main() sets up applies): the maximum-depth error for a
// limit below its length, success for a limit above it

type c11LongCase struct {
	Links int `json:"links"`
	N     int `json:"n"`
	Cmd   int `json:"cmd"`
}

func checkC11Long(c c11LongCase, ctx *vCtx) *vFailure {
	var sb strings.Builder
	for i := 0; i < c.Links; i++ {
		fmt.Fprintf(&sb, "link%d:\n  link%d: 1\n", i, i+1)
	}
	fmt.Fprintf(&sb, "link%d:\n  x: 1\n", c.Links)
	bp := vWriteFile("c11-long-book.yaml", sb.String())
	lp := vWriteFile("c11-long-log.yaml", "2021/01/01:\n  link0: 1\n")
	cmd := c11BigCmds[c.Cmd%len(c11BigCmds)]
	r := vRunBin(vInvocation{Args: append([]string{"--today", vToday, "--maxdepth", fmt.Sprint(c.N), "-d", bp, "-l", lp}, cmd...)}, 10*time.Minute)
	ctx.Run(1)
	ctx.NonTrivial(true)
	ctx.Labelf("links=%d", c.Links)
	if r.Exit == -999 {
		vHang("the real binary did not terminate within ten minutes on a chain of %d recipes", c.Links)
	}
	if c.N <= c.Links {
		if !r.Failed || !vIsDepthError(r.Err) {
			return vFailf("%v --maxdepth %d on an acyclic chain of %d references (real binary): exit %d, message %q (expected the maximum-depth error)", cmd, c.N, c.Links, r.Exit, vTrunc(r.Err, 400))
		}
		return nil
	}
	if r.Failed {
		return vFailf("%v --maxdepth %d on an acyclic chain of %d references (real binary) fails: exit %d, message %q", cmd, c.N, c.Links, r.Exit, vTrunc(r.Err, 400))
	}
	return nil
}

func TestVerifC11Long(t *testing.T) {
	// the recipe the resolver starts from is drawn by map order: the longest walk differs from run to run, so several runs
	space := []c11LongCase{{1000000, 10, 0}, {1000000, 10, 1}, {1000000, 10, 2}, {1000000, 1000002, 0}, {1000000, 9, 0}, {400000, 400002, 0}}
	if vThorough() {
		space = append(space, c11LongCase{1500000, 10, 1}, c11LongCase{1500000, 1500002, 0}, c11LongCase{2000000, 10, 0}, c11LongCase{400000, 400002, 2})
	}
	vEnum(t, "C11", "c11.longchain",
		"an acyclic chain of 1 000 000 (thorough: up to 2 000 000) references through the real binary, with --maxdepth 10 (maximum-depth error, three commands) and with a limit above the length of the chain (success)",
		fmt.Sprintf("%d cases", len(space)), len(space), func(i int) c11LongCase { return space[i] }, checkC11Long)
}

func TestVerifC11Big(t *testing.T) {
	space := []c11BigCase{{129, 0}}
	if vThorough() {
		space = []c11BigCase{{129, 0}, {129, 1}, {129, 2}, {257, 0}, {513, 0}}
	}
	vEnum(t, "C11", "c11.bigbook",
		"a cyclic pair of recipes behind 129 MiB (thorough: 257 and 513 MiB) of comment lines; the resolving commands must fail with the maximum-depth error",
		fmt.Sprintf("%d cases", len(space)), len(space), func(i int) c11BigCase { return space[i] }, checkC11Big)
}

func TestVerifC11Random(t *testing.T) {
	vRapid(t, "C11", "c11.random",
		"books built around N in 1..12: chains of length N-3..N+3, chains with side branches and skip links, random DAGs with h_max in N-2..N+2, cycles of length 1..6 entered through a path of length 0..N+1 (alone or beside chains), random declaration order; each resolved 24 (quick) / 64 (thorough) times with fresh random insertion orders, alternating entry points, 1/15 also through 16 CLI command variants x3 with the limit given by flag, HR_MAXDEPTH or configuration file; oracle: fail <=> cyclic or h_max >= N; non-trivial = cyclic or |h_max-N| <= 2",
		vBudget(6400, 128000), genC11, checkC11)
}

func TestVerifC11Enum(t *testing.T) {
	specs := c11EnumSpace(vPick(8, 12))
	vEnum(t, "C11", "c11.enum",
		"for every N up to the bound and for N in {99,100,101,999,1000,1001,1500} (chains of length N-2..N+1 only): pure chains of every length 0..N+3, chains of length 1..N+2 ending in an empty recipe, and cycles of length 1..4 entered at depth 0..3",
		fmt.Sprintf("N in 1..%d x (chain L in 0..N+3 | cycle K in 1..4 x entry depth 0..3)", vPick(8, 12)), len(specs),
		func(i int) c11Case {
			s := specs[i]
			c := c11Case{N: s.N, PermSeed: uint64(i)*104729 + 17, CLI: i%5 == 0}
			if s.Kind == 0 {
				c.Shape = "chain"
				c.Book = vDoc{Recs: c11Chain("r", s.A)}
			} else if s.Kind == 2 {
				c.Shape = "chain-to-empty-recipe"
				c.Book = vDoc{Recs: c11ChainToEmpty("r", s.A)}
			} else if s.Kind == 3 {
				// the last recipe of the chain lists many plain elements instead of one (its reference still counts once)
				c.Shape = "chain-to-wide-recipe"
				recs := c11Chain("r", s.A)
				last := &recs[len(recs)-1]
				last.Lines = nil
				for k := 0; k < s.B; k++ {
					last.Lines = append(last.Lines, c11Entry(fmt.Sprintf("el~%02d", k), "1"))
				}
				c.Book = vDoc{Recs: recs}
			} else {
				c.Shape = "cycle"
				c.Book = vDoc{Recs: c11Cycle(s.A, s.B)}
			}
			return c
		}, checkC11)
}

var _ = sort.Strings

func vMax(a, b int) int {
	if a > b {
		return a
	}
	return b
}
