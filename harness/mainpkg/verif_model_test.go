//go:build go1.21

package main

// Reference models. Nothing here shares code with the implementation: exact
// rationals (math/big), own CSV reader, integer day numbers.

import (
	"fmt"
	"math/big"
	"regexp"
	"sort"
	"strings"
)

// ---------------------------------------------------------------------------
// numbers

var (
	vRatZero = new(big.Rat)
	vRatHalf = big.NewRat(1, 2)
)

func vRatAbs(r *big.Rat) *big.Rat    { return new(big.Rat).Abs(r) }
func vRatAdd(a, b *big.Rat) *big.Rat { return new(big.Rat).Add(a, b) }
func vRatMul(a, b *big.Rat) *big.Rat { return new(big.Rat).Mul(a, b) }
func vRatSub(a, b *big.Rat) *big.Rat { return new(big.Rat).Sub(a, b) }

var vPow10 = func() []*big.Rat {
	out := make([]*big.Rat, 8)
	x := big.NewRat(1, 1)
	for i := range out {
		out[i] = new(big.Rat).Set(x)
		x = new(big.Rat).Mul(x, big.NewRat(1, 10))
	}
	return out
}()

// vRelSlack(n): the relative error float64 arithmetic may accumulate over n operations (each keeps 1.1e-16; the bound
// (n+4) * 2.3e-16 leaves a factor two), applied to the sum of the magnitudes of the terms. A tolerance that grows with the
// number of operations instead of a flat 1e-12 keeps "a sum far below its terms is printed as zero" visible at every scale.
func vRelSlack(n int) *big.Rat {
	if n < 1 {
		n = 1
	}
	return new(big.Rat).Mul(big.NewRat(int64(n)+4, 1), big.NewRat(23, 100000000000000000))
}

// vVal is an exact value together with the sum of the magnitudes of the terms
// it was built from (bounds the floating-point error of any summation order).
type vVal struct {
	V   *big.Rat
	Mag *big.Rat
	N   int // number of arithmetic operations behind the value
}

func vValOf(r *big.Rat) vVal   { return vVal{new(big.Rat).Set(r), vRatAbs(r), 1} }
func vValZero() vVal           { return vVal{new(big.Rat), new(big.Rat), 0} }
func (a vVal) Add(b vVal) vVal { return vVal{vRatAdd(a.V, b.V), vRatAdd(a.Mag, b.Mag), a.N + b.N + 1} }
func (a vVal) Scale(k *big.Rat) vVal {
	return vVal{vRatMul(a.V, k), vRatMul(a.Mag, vRatAbs(k)), a.N + 1}
}
func (a vVal) String() string { return a.V.FloatString(6) }

var vNumRe = regexp.MustCompile(`^-?\d+(\.\d+)?$`)

// vNumClose: printed (fixed-point with `decimals` decimals) is within half a
// unit of the last digit of want, plus 1e-9*(1+mag) for float rounding.
func vNumClose(printed string, want *big.Rat, decimals int, mag *big.Rat) bool {
	return vNumCloseN(printed, want, decimals, mag, 1)
}

func vNumCloseN(printed string, want *big.Rat, decimals int, mag *big.Rat, n int) bool {
	printed = strings.TrimSpace(printed)
	if !vNumRe.MatchString(printed) {
		return false
	}
	if i := strings.IndexByte(printed, '.'); decimals > 0 && (i < 0 || len(printed)-i-1 != decimals) {
		return false
	}
	p, ok := new(big.Rat).SetString(printed)
	if !ok {
		return false
	}
	tol := vRatMul(vRatHalf, vPow10[decimals])
	m := big.NewRat(1, 1)
	if mag != nil {
		m.Add(m, mag)
	} else {
		m.Add(m, vRatAbs(want))
	}
	tol.Add(tol, vRatMul(vRelSlack(n), m))
	return vRatAbs(vRatSub(p, want)).Cmp(tol) <= 0
}

func vValClose(printed string, want vVal, decimals int) bool {
	return vNumCloseN(printed, want.V, decimals, want.Mag, want.N)
}

// vFloatClose: a float64 result equals the exact value up to 1e-12 relative
// to the magnitude of its terms (exactly, when mag is zero).
func vFloatClose(got float64, want vVal) bool {
	g := new(big.Rat)
	if g.SetFloat64(got) == nil {
		return false
	}
	tol := vRatMul(vRelSlack(want.N), want.Mag)
	return vRatAbs(vRatSub(g, want.V)).Cmp(tol) <= 0
}

// ---------------------------------------------------------------------------
// RFC 4180 reader (own state machine, not encoding/csv)

func vReadCSV(s string) ([][]string, error) {
	var rows [][]string
	var row []string
	var field strings.Builder
	i, n := 0, len(s)
	if n == 0 {
		return nil, nil
	}
	for i < n {
		// start of a field
		if s[i] == '"' {
			i++
			closed := false
			for i < n {
				if s[i] == '"' {
					if i+1 < n && s[i+1] == '"' {
						field.WriteByte('"')
						i += 2
						continue
					}
					i++
					closed = true
					break
				}
				field.WriteByte(s[i])
				i++
			}
			if !closed {
				return nil, fmt.Errorf("unterminated quoted field in row %d", len(rows)+1)
			}
			if i < n && s[i] != ',' && s[i] != '\n' && s[i] != '\r' {
				return nil, fmt.Errorf("garbage after closing quote in row %d", len(rows)+1)
			}
		} else {
			for i < n && s[i] != ',' && s[i] != '\n' && s[i] != '\r' {
				if s[i] == '"' {
					return nil, fmt.Errorf("bare quote inside unquoted field in row %d", len(rows)+1)
				}
				field.WriteByte(s[i])
				i++
			}
		}
		row = append(row, field.String())
		field.Reset()
		if i >= n {
			return nil, fmt.Errorf("last record lacks a line terminator")
		}
		switch s[i] {
		case ',':
			i++
			if i >= n {
				return nil, fmt.Errorf("file ends after a separator")
			}
		case '\r':
			if i+1 >= n || s[i+1] != '\n' {
				return nil, fmt.Errorf("bare CR in row %d", len(rows)+1)
			}
			i += 2
			rows = append(rows, row)
			row = nil
		case '\n':
			i++
			rows = append(rows, row)
			row = nil
		}
	}
	if row != nil {
		return nil, fmt.Errorf("last record lacks a line terminator")
	}
	return rows, nil
}

// ---------------------------------------------------------------------------
// log day model

type vMerged struct {
	Name string
	Q    vVal
}

// vMergeEntries merges repeated foods keeping first-appearance order.
func vMergeEntries(es []vPEntry) []vMerged {
	var out []vMerged
	idx := map[string]int{}
	for _, e := range es {
		v := vValOf(vRat(e.Num))
		if i, ok := idx[e.Name]; ok {
			out[i].Q = out[i].Q.Add(v)
		} else {
			idx[e.Name] = len(out)
			out = append(out, vMerged{e.Name, v})
		}
	}
	return out
}

// ---------------------------------------------------------------------------
// resolver model

type vResolved struct {
	Elems  map[string]map[string]vVal // recipe -> basic element -> amount
	Height map[string]int             // longest chain of references starting at the recipe
	HMax   int
	Cyclic bool
}

// vModelResolve: memoised DFS in exact rationals. book records with the same
// heading: the last one wins (callers exclude duplicates where that matters).
func vModelResolve(book []vPRec) vResolved {
	def := map[string][]vPEntry{}
	for _, r := range book {
		def[r.Head] = r.Entries
	}
	res := vResolved{Elems: map[string]map[string]vVal{}, Height: map[string]int{}}
	state := map[string]int{} // 0 new, 1 on stack, 2 done
	var visit func(name string) (map[string]vVal, int)
	visit = func(name string) (map[string]vVal, int) {
		if state[name] == 2 {
			return res.Elems[name], res.Height[name]
		}
		if state[name] == 1 {
			res.Cyclic = true
			return map[string]vVal{}, 0
		}
		state[name] = 1
		out := map[string]vVal{}
		h := 0
		for _, e := range def[name] {
			coef := vRat(e.Num)
			if _, isRecipe := def[e.Name]; isRecipe {
				sub, sh := visit(e.Name)
				if sh+1 > h {
					h = sh + 1
				}
				for k, v := range sub {
					cur, ok := out[k]
					if !ok {
						cur = vValZero()
					}
					out[k] = cur.Add(v.Scale(coef))
				}
			} else {
				if h < 1 {
					h = 1
				}
				cur, ok := out[e.Name]
				if !ok {
					cur = vValZero()
				}
				out[e.Name] = cur.Add(vValOf(coef))
			}
		}
		state[name] = 2
		res.Elems[name] = out
		res.Height[name] = h
		return out, h
	}
	for name := range def {
		visit(name)
	}
	for _, h := range res.Height {
		if h > res.HMax {
			res.HMax = h
		}
	}
	return res
}

func vSortedKeys[V any](m map[string]V) []string {
	ks := make([]string, 0, len(m))
	for k := range m {
		ks = append(ks, k)
	}
	sort.Strings(ks)
	return ks
}

// ---------------------------------------------------------------------------
// register day model

type vIngr struct {
	Name string
	V    vVal
}
type vFoodRow struct {
	Name  string
	Q     vVal
	Ingrs []vIngr
}
type vTotalRow struct {
	Name          string
	Pos, Neg, Sum vVal
}
type vDayModel struct {
	Head   string
	Foods  []vFoodRow
	Totals []vTotalRow
}

// vModelDay: each distinct food once (first appearance) with summed quantity;
// under it q x each resolved element (sorted), or the food itself; totals per
// contributed element with separate positive/negative sums, sorted bytewise.
func vModelDay(rec vPRec, res vResolved) vDayModel {
	dm := vDayModel{Head: rec.Head}
	type acc struct{ pos, neg vVal }
	accs := map[string]*acc{}
	add := func(name string, v vVal) {
		a := accs[name]
		if a == nil {
			a = &acc{vValZero(), vValZero()}
			accs[name] = a
		}
		if v.V.Sign() < 0 {
			a.neg = a.neg.Add(v)
		} else {
			a.pos = a.pos.Add(v)
		}
	}
	for _, m := range vMergeEntries(rec.Entries) {
		fr := vFoodRow{Name: m.Name, Q: m.Q}
		if el, ok := res.Elems[m.Name]; ok {
			for _, k := range vSortedKeys(el) {
				v := el[k].Scale(m.Q.V)
				v.Mag = vRatMul(el[k].Mag, m.Q.Mag)
				fr.Ingrs = append(fr.Ingrs, vIngr{k, v})
				add(k, v)
			}
		} else {
			fr.Ingrs = append(fr.Ingrs, vIngr{m.Name, m.Q})
			add(m.Name, m.Q)
		}
		dm.Foods = append(dm.Foods, fr)
	}
	for _, k := range vSortedKeys(accs) {
		a := accs[k]
		dm.Totals = append(dm.Totals, vTotalRow{k, a.pos, a.neg, a.pos.Add(a.neg)})
	}
	return dm
}

// ---------------------------------------------------------------------------
// tree model

type vTreeNode struct {
	Path  string // full path joined with "/"
	Name  string
	Depth int
	V     vVal
}

// vModelTree: prefix sums over "/"-split paths; the listing is depth-first
// with siblings sorted bytewise.
func vModelTree(items []vMerged) []vTreeNode {
	sums := map[string]vVal{}
	children := map[string]map[string]bool{}
	for _, it := range items {
		parts := strings.Split(it.Name, "/")
		for i := 1; i <= len(parts); i++ {
			p := strings.Join(parts[:i], "/")
			cur, ok := sums[p]
			if !ok {
				cur = vValZero()
			}
			sums[p] = cur.Add(it.Q)
			par := strings.Join(parts[:i-1], "/")
			if i == 1 {
				par = "\x00root"
			}
			if children[par] == nil {
				children[par] = map[string]bool{}
			}
			children[par][parts[i-1]] = true
		}
	}
	var out []vTreeNode
	var walk func(parKey, parPath string, depth int)
	walk = func(parKey, parPath string, depth int) {
		for _, name := range vSortedKeys(children[parKey]) {
			p := name
			if depth > 0 {
				p = parPath + "/" + name
			}
			out = append(out, vTreeNode{Path: p, Name: name, Depth: depth, V: sums[p]})
			walk(p, p, depth+1)
		}
	}
	walk("\x00root", "", 0)
	return out
}
