//go:build go1.21

package main

// C06 — date range selection is exact, inclusive, independent of layout and zone.

import (
	"fmt"
	"sort"
	"strings"
	"testing"
	"time"

	"pgregory.net/rapid"
)

type c06Bound struct {
	Kind string `json:"kind"` // "" absent | "date" | "today" | "yesterday" | "last7" | "last30"
	Day  int    `json:"day,omitempty"`
}

func (b c06Bound) text(layout string) string {
	if b.Kind == "date" {
		return vFmtDay(b.Day, layout)
	}
	return b.Kind
}

// resolve gives the day number the bound stands for.
func (b c06Bound) resolve(today int) (int, bool) {
	switch b.Kind {
	case "":
		return 0, false
	case "date":
		return b.Day, true
	case "today":
		return today, true
	case "yesterday":
		return today - 1, true
	case "last7":
		return today - 7, true
	case "last30":
		return today - 30, true
	}
	vFault("unknown bound kind %q", b.Kind)
	return 0, false
}

var c06Commands = []struct {
	args    []string
	sub     bool // defines -b/-e itself
	sorted  bool // compare as sorted lines (row order is C05's concern)
	nonvoid bool // output must be non-empty when a non-empty day is selected
}{
	{[]string{"reg", "--no-color"}, true, false, true},
	{[]string{"bal"}, true, false, true},
	{[]string{"csv", "log"}, true, false, true},
	{[]string{"print"}, true, false, true},
	{[]string{"report", "totals"}, false, false, false}, // may be empty: a logged empty recipe contributes no element
	{[]string{"report", "quantity"}, false, true, true},
	{[]string{"report", "unresolved"}, false, true, false},
	{[]string{"reg", "--no-color", "-s", "@X@"}, true, false, false},
	{[]string{"reg", "-s", "@X@", "-g"}, true, false, false},
	{[]string{"reg", "-f", "."}, true, false, true},
	{[]string{"bal", "-s", "@X@"}, true, false, false},
	{[]string{"bal", "--collapse"}, true, false, true},
	{[]string{"reg", "--use-old-reg-reporter", "--no-color"}, true, false, true},
	{[]string{"reg", "--internal-template-name", "left-aligned", "--no-color"}, true, false, true},
}

type c06Case struct {
	S         vScenario `json:"s"`
	Layout    string    `json:"layout"` // date layout of the log and of every date argument
	Today     int       `json:"today"`
	GB        c06Bound  `json:"gb"` // global -b / -e
	GE        c06Bound  `json:"ge"`
	SB        c06Bound  `json:"sb"` // sub-command -b / -e (only for commands that define them)
	SE        c06Bound  `json:"se"`
	Cmd       int       `json:"cmd"`
	TZ        string    `json:"tz"`
	Summary   *c06Bound `json:"summary,omitempty"`   // summary DATE instead of Cmd
	SumGlobal int       `json:"sumglobal,omitempty"` // summary under a clock layout: 1 a global -b, 2 a global -e, 3 both, each inside the day asked for
	Bin       bool      `json:"bin"`
	LongOpt   bool      `json:"longopt"`
	FmtVia    string    `json:"fmtvia,omitempty"` // how the date format is given: "" flag, "env", "config"
	// Clock: the layout has a clock component ("2006-01-02 15:04"): record i is dated S.Days[i] at minute Mins[i], explicit
	// bounds carry the minutes BMins (global begin, global end, sub-command begin, sub-command end); begin <= t <= end on instants
	Clock bool   `json:"clock,omitempty"`
	Mins  []int  `json:"mins,omitempty"`
	BMins [4]int `json:"bmins,omitempty"`
	// layout "2006-01-02 15:04 -0700": every record and every explicit bound also carries a UTC offset in minutes; the
	// instant is what counts (day*1440 + minute - offset)
	Offs  []int  `json:"offs,omitempty"`
	BOffs [4]int `json:"boffs,omitempty"`

	snapTo bool // generator only
}

const c06ZoneLayout = "2006-01-02 15:04 -0700"

func c06Zoned(c c06Case) bool { return c.Layout == c06ZoneLayout }

func c06InstZ(day, min, off int) string {
	sign := "+"
	o := off
	if o < 0 {
		sign, o = "-", -o
	}
	return fmt.Sprintf("%s %02d:%02d %s%02d%02d", vFmtDay(day, "2006-01-02"), min/60, min%60, sign, o/60, o%60)
}

// c06Unit: how many units of Mins/BMins a day has under the layout (minutes, or milliseconds for the layout with
// fractional seconds)
func c06Unit(layout string) int {
	if layout == "2006-01-02 15:04:05.000" {
		return 86400000
	}
	if layout == "2006-01-02 15:04:05.000000" {
		return 86400000000
	}
	if layout == "2006-01-02 15:04:05.000000000" {
		return 86400000000000
	}
	return 1440
}

func c06Inst(day, v int, layout string) string {
	if layout == "2006-01-02 15:04:05.000000000" {
		return strings.TrimSuffix(vFmtDay(day, layout), "00:00:00.000000000") + fmt.Sprintf("%02d:%02d:%02d.%09d", v/3600000000000, v/60000000000%60, v/1000000000%60, v%1000000000)
	}
	if layout == "2006-01-02 15:04:05.000000" {
		return strings.TrimSuffix(vFmtDay(day, layout), "00:00:00.000000") + fmt.Sprintf("%02d:%02d:%02d.%06d", v/3600000000, v/60000000%60, v/1000000%60, v%1000000)
	}
	if layout == "2006-01-02 15:04:05.000" {
		return strings.TrimSuffix(vFmtDay(day, layout), "00:00:00.000") + fmt.Sprintf("%02d:%02d:%02d.%03d", v/3600000, v/60000%60, v/1000%60, v%1000)
	}
	return strings.TrimSuffix(vFmtDay(day, layout), "00:00") + fmt.Sprintf("%02d:%02d", v/60, v%60)
}

func c06SortedLines(s string) string {
	l := strings.Split(s, "\n")
	sort.Strings(l)
	return strings.Join(l, "\n")
}

func checkC06(c c06Case, ctx *vCtx) *vFailure {
	if c.Clock {
		if (c.Layout != "2006-01-02 15:04" && c.Layout != "2006-01-02 15:04:05.000" && c.Layout != "2006-01-02 15:04:05.000000" && c.Layout != "2006-01-02 15:04:05.000000000" && !c06Zoned(c)) || len(c.Mins) != len(c.S.Log.Recs) || (c06Zoned(c) && len(c.Offs) != len(c.Mins)) {
			vFault("C06 clock mode: layout %q, %d records, %d minutes", c.Layout, len(c.S.Log.Recs), len(c.Mins))
		}
		recs := append([]vRec{}, c.S.Log.Recs...)
		for i := range recs {
			recs[i].Head = c06Inst(c.S.Days[i], c.Mins[i], c.Layout)
			if c06Zoned(c) {
				recs[i].Head = c06InstZ(c.S.Days[i], c.Mins[i], c.Offs[i])
			}
		}
		c.S.Log.Recs = recs
		ctx.Label("clock-format")
	}
	fmtArgs := []string{"--today", vFmtDay(c.Today, c.Layout)}
	fmtEnv := map[string]string{}
	if c.Layout != "" && c.Layout != "2006/01/02" {
		switch c.FmtVia {
		case "env":
			fmtEnv["HR_DATE_FORMAT"] = c.Layout
		case "config":
			// the configuration file also sets the clock: --today must still win
			fmtArgs = append(fmtArgs, "--config", vWriteFile("c06.conf", "[Global]\nNow=2019-05-05T00:00:00Z\nDateFormat="+c.Layout+"\n"))
		default:
			fmtArgs = append(fmtArgs, "--date-format", c.Layout)
		}
		ctx.Label("date-format-via:" + c.FmtVia)
	}
	run := func(inv vInvocation) vRun {
		ctx.Run(1)
		inv.Env = fmtEnv
		if c.Bin {
			r := vRunBin(inv, 30*time.Second)
			if r.Exit == -999 {
				vHang("the real binary did not terminate within its time limit")
			}
			return r
		}
		return vRunApp(inv)
	}
	bookPath := vWriteFile("c06-book.yaml", c.S.Book.Render())
	fullPath := vWriteFile("c06-log.yaml", c.S.Log.Render())
	reduced := func(keep func(i int) bool) (string, int, int) {
		d := vDoc{Pre: c.S.Log.Pre, NoFinalNL: c.S.Log.NoFinalNL}
		nonEmpty := 0
		for i, r := range c.S.Log.Recs {
			if keep(i) {
				d.Recs = append(d.Recs, r)
				for _, l := range r.Lines {
					if l.Kind == vkEntry {
						nonEmpty++
						break
					}
				}
			}
		}
		return vWriteFile("c06-log-reduced.yaml", d.Render()), len(d.Recs), nonEmpty
	}
	x := "x"
	if len(c.S.Basics) > 0 {
		x = c.S.Basics[0]
	}

	if c.Summary != nil {
		day, _ := c.Summary.resolve(c.Today)
		arg := c.Summary.text(c.Layout)
		if c.Clock && c.Summary.Kind == "date" {
			arg = c06Inst(c.Summary.Day, c.BMins[0], c.Layout) // any instant of the day names the day
		}
		selDay := func(i int) bool { return c.S.Days[i] == day }
		if c06Zoned(c) {
			// the day is the calendar day of the argument in the zone it is written in (keywords: midnight UTC)
			off := 0
			if c.Summary.Kind == "date" {
				off = c.BOffs[0]
				arg = c06InstZ(c.Summary.Day, c.BMins[0], off)
			}
			lo := day*1440 - off
			hi := lo + 1439
			if c.Summary.Kind == "date" {
				// an offset that is the one the process zone has at that moment makes the date a local date: the day then has
				// the length the zone gives it (23, 24 or 25 hours). The zone rules come from the time package; everything
				// else stays integer arithmetic.
				loc := vZone(c.TZ)
				y, m, d := vCivil(c.Summary.Day)
				t := time.Date(y, time.Month(m), d, c.BMins[0]/60, c.BMins[0]%60, 0, 0, time.FixedZone("", off*60))
				if _, zoff := t.In(loc).Zone(); zoff == off*60 {
					lt := t.In(loc)
					base := time.Date(2021, 1, 1, 0, 0, 0, 0, time.UTC).Unix()
					start := time.Date(lt.Year(), lt.Month(), lt.Day(), 0, 0, 0, 0, loc)
					end := time.Date(lt.Year(), lt.Month(), lt.Day(), 24, 0, 0, -1, loc)
					fl := func(a int64) int { // floor(a/60)
						if a >= 0 {
							return int(a / 60)
						}
						return int(-((-a + 59) / 60))
					}
					lo, hi = fl(start.Unix()-base), fl(end.Unix()-base)
					if hi-lo != 1439 {
						ctx.Label("summary-day-not-24h")
					}
				}
			}
			selDay = func(i int) bool {
				ti := c.S.Days[i]*1440 + c.Mins[i] - c.Offs[i]
				return ti >= lo && ti <= hi
			}
		}
		ctx.Label("summary:" + c.Summary.Kind)
		base := append([]string{}, fmtArgs...)
		if c.Clock && !c06Zoned(c) && c.SumGlobal != 0 {
			// global period flags beside summary: the command shows the day it is asked for, whatever the flags say
			// (bounds inside that very day, so that a kept bound would cut it)
			if c.SumGlobal&1 != 0 {
				base = append(base, "-b", c06Inst(day, c.BMins[1], c.Layout))
			}
			if c.SumGlobal&2 != 0 {
				base = append(base, "-e", c06Inst(day, c.BMins[2], c.Layout))
			}
			ctx.Label("summary-with-global-period")
		}
		inv := vInvocation{Args: append(append(base, "-d", bookPath, "-l", fullPath), "--no-color", "summary", arg), TZ: c.TZ}
		got := run(inv)
		redPath, nsel, _ := reduced(selDay)
		ref := run(vInvocation{Args: append(append(append([]string{}, fmtArgs...), "-d", bookPath, "-l", redPath), "--no-color", "summary", arg), TZ: c.TZ})
		ctx.NonTrivial(nsel > 0 && nsel < len(c.S.Days))
		if got.Failed || ref.Failed {
			return vFailf("summary %s (tz %s) failed: %s / reference: %s", arg, c.TZ, got, ref)
		}
		if got.Stdout != ref.Stdout {
			return vFailf("summary %s (today %s, tz %s) does not select exactly the records of that calendar day.\n--- got:\n%s\n--- expected (same file with the other days deleted):\n%s", arg, vFmtDay(c.Today, c.Layout), c.TZ, got.Stdout, ref.Stdout)
		}
		if nsel > 0 && got.Stdout == "" {
			return vFailf("summary %s prints nothing although %d records carry that date", arg, nsel)
		}
		return nil
	}

	cmd := c06Commands[c.Cmd]
	// effective bounds: the sub-command's value overrides the global one
	effB, effE := c.GB, c.GE
	if cmd.sub {
		if c.SB.Kind != "" {
			effB = c.SB
		}
		if c.SE.Kind != "" {
			effE = c.SE
		}
	}
	lo, hasLo := effB.resolve(c.Today)
	hi, hasHi := effE.resolve(c.Today)
	sel := func(i int) bool {
		d := c.S.Days[i]
		return (!hasLo || d >= lo) && (!hasHi || d <= hi)
	}
	btext := func(b c06Bound, k int) string { return b.text(c.Layout) }
	if c.Clock {
		// instants: minutes since day 0; keywords stand for midnight (--today is given as a midnight)
		bmin := func(b c06Bound, k int) int {
			if b.Kind == "date" {
				return c.BMins[k]
			}
			return 0
		}
		kB, kE := 0, 1
		if cmd.sub && c.SB.Kind != "" {
			kB = 2
		}
		if cmd.sub && c.SE.Kind != "" {
			kE = 3
		}
		unit := c06Unit(c.Layout)
		boff := func(b c06Bound, k int) int {
			if b.Kind == "date" && c06Zoned(c) {
				return c.BOffs[k]
			}
			return 0
		}
		loI, hiI := lo*unit+bmin(effB, kB)-boff(effB, kB), hi*unit+bmin(effE, kE)-boff(effE, kE)
		sel = func(i int) bool {
			ti := c.S.Days[i]*unit + c.Mins[i]
			if c06Zoned(c) {
				ti -= c.Offs[i]
			}
			return (!hasLo || ti >= loI) && (!hasHi || ti <= hiI)
		}
		btext = func(b c06Bound, k int) string {
			if b.Kind == "date" && c06Zoned(c) {
				return c06InstZ(b.Day, c.BMins[k], c.BOffs[k])
			}
			if b.Kind == "date" {
				return c06Inst(b.Day, c.BMins[k], c.Layout)
			}
			return b.Kind
		}
	}
	bOpt, eOpt := "-b", "-e"
	if c.LongOpt {
		bOpt, eOpt = "--begin", "--end"
	}
	var global, sub []string
	if c.GB.Kind != "" {
		global = append(global, bOpt, btext(c.GB, 0))
	}
	if c.GE.Kind != "" {
		global = append(global, eOpt, btext(c.GE, 1))
	}
	if cmd.sub {
		if c.SB.Kind != "" {
			sub = append(sub, bOpt, btext(c.SB, 2))
		}
		if c.SE.Kind != "" {
			sub = append(sub, eOpt, btext(c.SE, 3))
		}
	}
	cmdArgs := make([]string, len(cmd.args))
	for i, a := range cmd.args {
		cmdArgs[i] = strings.ReplaceAll(a, "@X@", x)
	}
	// sub-command flags go right after the (sub-)command words and before its own options
	nwords := 1
	if cmdArgs[0] == "csv" || cmdArgs[0] == "report" {
		nwords = 2
	}
	withSub := append(append(append([]string{}, cmdArgs[:nwords]...), sub...), cmdArgs[nwords:]...)
	args := append(append(append(append([]string{}, fmtArgs...), global...), "-d", bookPath, "-l", fullPath), withSub...)
	got := run(vInvocation{Args: args, TZ: c.TZ})
	redPath, nsel, nonEmpty := reduced(sel)
	refArgs := append(append(append([]string{}, fmtArgs...), "-d", bookPath, "-l", redPath), cmdArgs...)
	ref := run(vInvocation{Args: refArgs, TZ: c.TZ})

	boundary := false
	for i := range c.S.Days {
		if (hasLo && c.S.Days[i] == lo) || (hasHi && c.S.Days[i] == hi) {
			boundary = true
		}
	}
	inverted := hasLo && hasHi && lo > hi
	ctx.NonTrivial((nsel > 0 && nsel < len(c.S.Days)) || boundary || inverted)
	pos := "none"
	switch {
	case len(global) > 0 && len(sub) > 0:
		pos = "both"
	case len(global) > 0:
		pos = "global"
	case len(sub) > 0:
		pos = "sub-command"
	}
	ctx.Label("position:" + pos)
	ctx.Label("cmd:" + strings.Join(cmd.args[:vMin(2, len(cmd.args))], " "))
	ctx.Label("tz:" + c.TZ)
	if effB.Kind != "" && effB.Kind != "date" {
		ctx.Label("keyword:" + effB.Kind)
	}
	if effE.Kind != "" && effE.Kind != "date" {
		ctx.Label("keyword:" + effE.Kind)
	}
	if inverted {
		ctx.Label("inverted")
	}
	if boundary {
		ctx.Label("boundary-day")
	}
	desc := fmt.Sprintf("%v (today %s, tz %s; days of the log %v; model selects begin=%v end=%v)", args, vFmtDay(c.Today, c.Layout), c.TZ, c.S.Days, vOptDay(lo, hasLo), vOptDay(hi, hasHi))
	if got.Failed || ref.Failed {
		return vFailf("%s failed: %s\nreference: %s", desc, got, ref)
	}
	g, w := got.Stdout, ref.Stdout
	if cmd.sorted {
		g, w = c06SortedLines(g), c06SortedLines(w)
	}
	if g != w {
		return vFailf("%s does not report exactly the days begin <= d <= end.\n--- got:\n%s\n--- expected (same file with the other days deleted, no period):\n%s", desc, vTrunc(got.Stdout, 2000), vTrunc(ref.Stdout, 2000))
	}
	if cmd.nonvoid && nonEmpty > 0 && got.Stdout == "" {
		return vFailf("%s prints nothing although %d selected days have entries", desc, nonEmpty)
	}
	return nil
}

func vOptDay(d int, ok bool) string {
	if !ok {
		return "absent"
	}
	return vFmtDay(d, "")
}

var c06Zones = []string{"UTC", "America/New_York", "Asia/Tokyo", "Pacific/Kiritimati", "Pacific/Pago_Pago", "Europe/Sofia",
	"America/Havana", "America/Santiago", "Asia/Kolkata", "Australia/Lord_Howe", "America/St_Johns", "Asia/Kathmandu"} // incl. DST changes at midnight and non-hour offsets

const c06Base = 40 // first day of the window (2021-02-10); month boundary: use 56..61 in some cases

// dates far from the log: "open" bounds people write to mean "everything since / until", and the edges of
// what a 64-bit nanosecond count can hold (1677-09-21 .. 2262-04-11)
var c06FarDays = []int{vDaysFromCivil(1, 1, 1), vDaysFromCivil(1000, 1, 1), vDaysFromCivil(1582, 10, 15), vDaysFromCivil(1677, 9, 20), vDaysFromCivil(1677, 9, 21), vDaysFromCivil(1677, 9, 22), vDaysFromCivil(1800, 1, 1),
	vDaysFromCivil(1969, 12, 31), vDaysFromCivil(1970, 1, 1), vDaysFromCivil(2038, 1, 19), vDaysFromCivil(2038, 1, 20), vDaysFromCivil(2100, 12, 31), vDaysFromCivil(2262, 4, 11), vDaysFromCivil(2262, 4, 12), vDaysFromCivil(2262, 4, 13), vDaysFromCivil(3000, 1, 1), vDaysFromCivil(9999, 12, 31)}

// c06NoFar: the layout of the case cannot write dates far from the log (two-digit year), nor days before the window
var c06NoFar = false

func genC06Bound(t *rapid.T, base int, today int, label string) c06Bound {
	kind := rapid.IntRange(0, 10).Draw(t, label+".kind")
	if c06NoFar {
		switch kind {
		case 0, 1:
			return c06Bound{}
		case 2, 3, 10:
			return c06Bound{Kind: []string{"today", "yesterday", "last7", "last30"}[rapid.IntRange(0, 3).Draw(t, label+".kw")]}
		}
		return c06Bound{Kind: "date", Day: base + rapid.IntRange(0, 6).Draw(t, label+".day")}
	}
	switch kind {
	case 0, 1:
		return c06Bound{}
	case 10:
		return c06Bound{Kind: "date", Day: c06FarDays[rapid.IntRange(0, len(c06FarDays)-1).Draw(t, label+".far")]}
	case 2:
		return c06Bound{Kind: []string{"today", "yesterday", "last7", "last30"}[rapid.IntRange(0, 3).Draw(t, label+".kw")]}
	default:
		return c06Bound{Kind: "date", Day: base + rapid.IntRange(-1, 6).Draw(t, label+".day")}
	}
}

func genC06(t *rapid.T) c06Case {
	layout := []string{"", "", "2006-01-02", "02.01.2006", "2006/02/01", "06/01/02", "2006/1/2", "January 2, 2006", "Mon 2 Jan 2006", "20060102", "2006-01-02T15:04", "2006-01-02T15:04:05Z07:00", "Jan 2 2006 3:04PM", "01/02"}[rapid.IntRange(0, 13).Draw(t, "layout")]
	c06NoFar = layout == "06/01/02" || layout == "01/02"
	defer func() { c06NoFar = false }()
	// windows incl. month, year and leap-day boundaries and daylight-saving changes (2021-03-14 Havana/US, 2021-03-28 EU,
	// 2021-09-05 Santiago, 2021-11-07 US)
	// -3 and 1458: 31 December of a leap year next to 1 January
	// -18631: 1969-12-29 .. 1970-01-03 (around the Unix epoch); -44197 and 28852: around 1 March 1900 and 2100 (no leap day)
	// 1677-09-19.. and 2262-04-09..: the days where a 64-bit nanosecond count since 1970 wraps; years 1, 1000 and 9999
	bases := []int{c06Base, 56, 362, 1150, 70, 84, 245, 308, -3, 1458, -18631, -44197, 28852,
		vDaysFromCivil(1677, 9, 19), vDaysFromCivil(2262, 4, 9), vDaysFromCivil(1, 2, 15), vDaysFromCivil(1000, 2, 26), vDaysFromCivil(9999, 12, 20), vDaysFromCivil(2038, 1, 17)}
	base := bases[rapid.IntRange(0, len(bases)-1).Draw(t, "base")]
	if layout == "01/02" {
		// all days of the case in one year, away from the end of February (the year such values get has a leap day)
		base = []int{c06Base, 100, 200, 300}[rapid.IntRange(0, 3).Draw(t, "basenoyear")]
	} else if c06NoFar {
		// the first days of the first year the layout can write: the keywords reach back into a year it cannot write
		// ... and the turn of the century inside the range of the layout (99/12/31 is followed by 00/01/01)
		base = []int{vDaysFromCivil(1969, 1, 1), vDaysFromCivil(1969, 1, 1), vDaysFromCivil(2068, 12, 20), c06Base, vDaysFromCivil(1999, 12, 28), vDaysFromCivil(1999, 12, 30), vDaysFromCivil(2000, 2, 26)}[rapid.IntRange(0, 6).Draw(t, "base2y")]
	}
	exact := true
	lo := vLayoutOpts{Plain: true}
	if rapid.IntRange(0, 4).Draw(t, "varlayout") == 0 {
		lo = vLayoutOpts{EOL: "mixed"}
	}
	s := vGenScenario(t, vScenOpts{MinDays: 1, MaxDays: 7, MaxEntries: 3, MaxRecipes: 3, Exact: &exact, Layout: &lo, DateLayout: layout, Window: 6})
	// shift the days into the chosen window, with an occasional day just outside
	for i := range s.Days {
		d := s.Days[i] + base
		if rapid.IntRange(0, 11).Draw(t, "outside") == 0 {
			d = base + []int{-1, 6, -8, -31, 7}[rapid.IntRange(0, 4).Draw(t, "outday")]
			if c06NoFar {
				d = base + 6
			}
		}
		s.Days[i] = d
		s.Log.Recs[i].Head = vFmtDay(d, layout)
	}
	today := base + rapid.IntRange(0, 5).Draw(t, "today")
	c := c06Case{S: s, Layout: layout, Today: today,
		TZ:      c06Zones[rapid.IntRange(0, len(c06Zones)-1).Draw(t, "tz")],
		Bin:     rapid.IntRange(0, 29).Draw(t, "bin") == 0,
		LongOpt: rapid.IntRange(0, 3).Draw(t, "long") == 0,
		FmtVia:  []string{"", "", "env", "config"}[rapid.IntRange(0, 3).Draw(t, "fmtvia")]}
	var clockEdges []int
	if rapid.IntRange(0, 3).Draw(t, "clock") == 0 {
		// a date format with a clock component: the period is an interval of instants (minutes, or milliseconds)
		c.Clock, c.Layout = true, []string{"2006-01-02 15:04", "2006-01-02 15:04:05.000", c06ZoneLayout, "2006-01-02 15:04:05.000000", "2006-01-02 15:04:05.000000000"}[rapid.IntRange(0, 4).Draw(t, "clocklayout")]
		unit := c06Unit(c.Layout)
		if c.Layout == "2006-01-02 15:04:05.000000000" {
			// nanoseconds: the window stays near the present (the model counts nanoseconds in 64 bits)
			delta := c06Base - base
			for i := range c.S.Days {
				c.S.Days[i] += delta
			}
			today, base = today+delta, c06Base
			c.Today = today
			c06NoFar = true
		}
		edges := []int{0, 1, 719, 720, 1438, 1439}
		if unit > 1440 {
			edges = []int{0, 1, 999, 1000, 43200000, 86399000, 86399001, 86399250, 86399999}
		}
		if unit > 86400000 {
			edges = []int{0, 1, 999, 1000, 43200000000, 86399000000, 86399000001, 86399999000, 86399999001, 86399999500, 86399999999}
		}
		if unit > 86400000000 {
			edges = []int{0, 1, 499, 500, 999, 1000, 1001, 1999, 43200000000000, 43200000000001, 43200000000999, 86399999999000, 86399999999001, 86399999999500, 86399999999999}
		}
		clockEdges = edges
		instant := func(label string) int {
			if rapid.Bool().Draw(t, label+".edge") {
				return edges[rapid.IntRange(0, len(edges)-1).Draw(t, label+".e")]
			}
			return rapid.IntRange(0, unit-1).Draw(t, label+".m")
		}
		for i := range c.S.Log.Recs {
			c.Mins = append(c.Mins, instant(fmt.Sprintf("min%d", i)))
		}
		for k := range c.BMins {
			c.BMins[k] = instant(fmt.Sprintf("bmin%d", k))
		}
		offsets := []int{0, 0, 120, -420, 330, 780, -660, 345, -210, 840, -720}
		if c.Layout == c06ZoneLayout {
			for i := range c.S.Log.Recs {
				c.Offs = append(c.Offs, offsets[rapid.IntRange(0, len(offsets)-1).Draw(t, fmt.Sprintf("off%d", i))])
			}
			for k := range c.BOffs {
				c.BOffs[k] = offsets[rapid.IntRange(0, len(offsets)-1).Draw(t, fmt.Sprintf("boff%d", k))]
			}
		}
		c.snapTo = len(c.S.Log.Recs) > 0 && rapid.IntRange(0, 2).Draw(t, "snap") == 0
	}
	if rapid.IntRange(0, 7).Draw(t, "summary") == 0 {
		b := genC06Bound(t, base, today, "sum")
		if b.Kind == "" {
			b = c06Bound{Kind: "today"}
		}
		c.Summary = &b
		if c.Clock {
			c.SumGlobal = []int{0, 0, 1, 2, 3}[rapid.IntRange(0, 4).Draw(t, "sumglobal")]
		}
		if c.Clock && len(c.S.Days) > 0 && len(clockEdges) > 3 && rapid.Bool().Draw(t, "sumedge") {
			// a record in the very last (or first) instants of the day asked for
			if day, ok := b.resolve(today); ok {
				j := rapid.IntRange(0, len(c.S.Days)-1).Draw(t, "sumedgej")
				c.S.Days[j] = day
				c.Mins[j] = []int{clockEdges[len(clockEdges)-1], clockEdges[len(clockEdges)-2], clockEdges[len(clockEdges)-3], 0, 1}[rapid.IntRange(0, 4).Draw(t, "sumedgev")]
			}
		}
		return c
	}
	c.Cmd = rapid.IntRange(0, len(c06Commands)-1).Draw(t, "cmd")
	switch rapid.IntRange(0, 2).Draw(t, "position") {
	case 0:
		c.GB, c.GE = genC06Bound(t, base, today, "gb"), genC06Bound(t, base, today, "ge")
	case 1:
		c.SB, c.SE = genC06Bound(t, base, today, "sb"), genC06Bound(t, base, today, "se")
	default:
		c.GB, c.GE = genC06Bound(t, base, today, "gb"), genC06Bound(t, base, today, "ge")
		c.SB, c.SE = genC06Bound(t, base, today, "sb"), genC06Bound(t, base, today, "se")
	}
	if c.snapTo {
		// one explicit bound falls exactly on a record: the same text, or (zone layout) the same instant written with
		// another offset
		bs := []*c06Bound{&c.GB, &c.GE, &c.SB, &c.SE}
		k := rapid.IntRange(0, 3).Draw(t, "snapk")
		if bs[k].Kind == "date" {
			j := rapid.IntRange(0, len(c.S.Log.Recs)-1).Draw(t, "snapj")
			bs[k].Day, c.BMins[k] = c.S.Days[j], c.Mins[j]
			if c.Layout == "2006-01-02 15:04:05.000000000" && rapid.Bool().Draw(t, "snapnearns") {
				// next to the record, inside the same microsecond or the neighbouring one
				d := []int{-1, 1, -400, 400, -999, 999, -1000, 1000}[rapid.IntRange(0, 7).Draw(t, "snapdeltans")]
				if v := c.BMins[k] + d; v >= 0 && v < 86400000000000 {
					c.BMins[k] = v
				}
			}
			if c.Layout == "2006-01-02 15:04:05.000" && rapid.Bool().Draw(t, "snapnear") {
				// not on the record but next to it, inside the same second or the neighbouring one
				d := []int{-1, 1, -400, 400, -999, 999, -1000, 1000}[rapid.IntRange(0, 7).Draw(t, "snapdelta")]
				if v := c.BMins[k] + d; v >= 0 && v < 86400000 {
					c.BMins[k] = v
				}
			}
			if c.Layout == c06ZoneLayout {
				c.BOffs[k] = c.Offs[j]
				if o2 := []int{0, 330, -210, 120}[rapid.IntRange(0, 3).Draw(t, "snapoff")]; rapid.Bool().Draw(t, "snapother") {
					if m := c.Mins[j] + o2 - c.Offs[j]; m >= 0 && m < 1440 {
						c.BMins[k], c.BOffs[k] = m, o2
					}
				}
			}
		}
	}
	if c.Clock && c.Layout == c06ZoneLayout && len(c.S.Log.Recs) > 0 && rapid.Bool().Draw(t, "yearedge") {
		// a record and a bound on either side of New Year on paper only: the instants are ordered the other way round
		bs := []*c06Bound{&c.GB, &c.GE, &c.SB, &c.SE}
		j := rapid.IntRange(0, len(c.S.Log.Recs)-1).Draw(t, "yearedgej")
		jan1 := vDaysFromCivil([]int{2021, 2020, 2025, 1970, 2000, 1000, 9999}[rapid.IntRange(0, 6).Draw(t, "yearedgey")], 1, 1)
		off := []int{120, 330, 60, 840}[rapid.IntRange(0, 3).Draw(t, "yearedgeoff")]
		if rapid.Bool().Draw(t, "yearedgeside") {
			// 00:30 +0200 on 1 January is 22:30 UTC on 31 December: not after an end of 23:00 +0000 on 31 December
			k := []int{1, 3}[rapid.IntRange(0, 1).Draw(t, "yearedgek")]
			c.S.Days[j], c.Mins[j], c.Offs[j] = jan1, 30, off
			*bs[k] = c06Bound{Kind: "date", Day: jan1 - 1}
			c.BMins[k], c.BOffs[k] = 23*60+45, 0
		} else {
			// 23:30 -0200 on 31 December is 01:30 UTC on 1 January: not before a begin of 00:15 +0000 on 1 January
			k := []int{0, 2}[rapid.IntRange(0, 1).Draw(t, "yearedgek")]
			c.S.Days[j], c.Mins[j], c.Offs[j] = jan1-1, 23*60+30, -off
			*bs[k] = c06Bound{Kind: "date", Day: jan1}
			c.BMins[k], c.BOffs[k] = 15, 0
		}
	}
	return c
}

// ---------------------------------------------------------------------------
// exhaustive: all explicit (begin,end) pairs over the window for fixed logs

var c06EnumLogs = [][]int{
	{0, 1, 2, 3, 4, 5},
	{5, 4, 3, 2, 1, 0},
	{2, 2, 2},
	{0, 5, 0, 5, 3},
	{3},
	{-1, 0, 6, 5, 2, 2, 1},
}

func c06EnumScenario(li int) vScenario {
	plain := vLayout{Indent: "  ", Sep: ": ", EOL: "\n"}
	var s vScenario
	s.Exact = true
	s.Book = vDoc{Recs: []vRec{{Head: "meal", HL: vLayout{EOL: "\n"}, Lines: []vLine{{Kind: vkEntry, Name: "x", Num: "2", L: plain}, {Kind: vkEntry, Name: "y", Num: "-3", L: plain}}}}}
	s.Recipes, s.Basics = []string{"meal"}, []string{"x", "y"}
	for i, d := range c06EnumLogs[li] {
		day := c06Base + d
		s.Days = append(s.Days, day)
		s.Log.Recs = append(s.Log.Recs, vRec{Head: vFmtDay(day, ""), HL: vLayout{EOL: "\n"}, Lines: []vLine{
			{Kind: vkEntry, Name: "meal", Num: fmt.Sprint(i + 1), L: plain},
			{Kind: vkEntry, Name: fmt.Sprintf("snack%d", i%3), Num: fmt.Sprint(10 * (i + 1)), L: plain}}})
	}
	return s
}

// bounds: absent + the 6 window days + one day before + one day after
func c06EnumBound(i int) c06Bound {
	if i == 0 {
		return c06Bound{}
	}
	return c06Bound{Kind: "date", Day: c06Base + i - 2}
}

type c06EnumIdx struct{ b, e, log, cmd, pos, tz int }

func c06EnumSpace(zones int) []c06EnumIdx {
	var out []c06EnumIdx
	for tz := 0; tz < zones; tz++ {
		for b := 0; b < 9; b++ {
			for e := 0; e < 9; e++ {
				for l := range c06EnumLogs {
					for cmd := range c06Commands {
						npos := 1
						if c06Commands[cmd].sub {
							npos = 3
						}
						for pos := 0; pos < npos; pos++ {
							out = append(out, c06EnumIdx{b, e, l, cmd, pos, tz})
						}
					}
				}
			}
		}
	}
	return out
}

func c06EnumCase(ix c06EnumIdx) c06Case {
	c := c06Case{S: c06EnumScenario(ix.log), Today: c06Base + 3, Cmd: ix.cmd, TZ: c06Zones[ix.tz]}
	b, e := c06EnumBound(ix.b), c06EnumBound(ix.e)
	switch ix.pos {
	case 0:
		c.GB, c.GE = b, e
	case 1:
		c.SB, c.SE = b, e
	default: // both: decoys globally, the real ones on the sub-command
		c.GB, c.GE = c06Bound{Kind: "date", Day: c06Base + 4}, c06Bound{Kind: "date", Day: c06Base + 1}
		c.SB, c.SE = b, e
	}
	return c
}

// exhaustive: keyword bounds around daylight-saving changes and year ends
var c06DSTWindows = []int{70, 84, 245, 308, -3, 1458, 362, -18631} // first day of a 6-day window
var c06DSTZones = []string{"America/New_York", "Europe/Berlin", "America/Havana", "America/Santiago", "Australia/Lord_Howe", "Asia/Kolkata", "UTC"}

type c06DSTIdx struct{ win, today, kw, side, zone, cmd int }

func c06DSTSpace() []c06DSTIdx {
	var out []c06DSTIdx
	for w := range c06DSTWindows {
		for today := 0; today < 6; today++ {
			for kw := 0; kw < 5; kw++ { // today yesterday last7 last30 + explicit date = today-1
				for side := 0; side < 2; side++ {
					for z := range c06DSTZones {
						for cmd := 0; cmd < 2; cmd++ {
							out = append(out, c06DSTIdx{w, today, kw, side, z, cmd})
						}
					}
				}
			}
		}
	}
	return out
}

func c06DSTCase(ix c06DSTIdx) c06Case {
	base := c06DSTWindows[ix.win]
	today := base + ix.today
	plain := vLayout{Indent: "  ", Sep: ": ", EOL: "\n"}
	var s vScenario
	s.Exact = true
	s.Book = vDoc{Recs: []vRec{{Head: "meal", HL: vLayout{EOL: "\n"}, Lines: []vLine{{Kind: vkEntry, Name: "x", Num: "2", L: plain}}}}}
	s.Recipes, s.Basics = []string{"meal"}, []string{"x"}
	// one record for every day from today-31 to today+1
	for d := today - 31; d <= today+1; d++ {
		s.Days = append(s.Days, d)
		s.Log.Recs = append(s.Log.Recs, vRec{Head: vFmtDay(d, ""), HL: vLayout{EOL: "\n"}, Lines: []vLine{{Kind: vkEntry, Name: "meal", Num: fmt.Sprint((d-today+40)%7 + 1), L: plain}}})
	}
	bound := c06Bound{Kind: []string{"today", "yesterday", "last7", "last30", "date"}[ix.kw], Day: today - 1}
	c := c06Case{S: s, Today: today, TZ: c06DSTZones[ix.zone], Cmd: []int{2, 0}[ix.cmd]} // csv log, reg
	if ix.side == 0 {
		c.GB = bound
	} else {
		c.GE = bound
	}
	return c
}

func TestVerifC06DST(t *testing.T) {
	space := c06DSTSpace()
	vEnum(t, "C06", "c06.dst",
		"keyword and explicit bounds around daylight-saving changes and year ends: 8 six-day windows (the Unix epoch, 2021-03-14 US/Havana, 2021-03-28 EU, 2021-09-05 Santiago, 2021-11-07 US, 2020/2021 and 2024/2025 leap-year ends, 2021/2022) x --today on each day x bound in {today, yesterday, last7, last30, explicit date} x {begin, end} x 7 zones x {csv log, reg}, on a log with one record per day from today-31 to today+1",
		fmt.Sprintf("%d combinations", len(space)), len(space), func(i int) c06Case { return c06DSTCase(space[i]) }, checkC06)
}

// ---------------------------------------------------------------------------
// the current date given by the configuration file as a local time (with the offset the process zone has at that moment),
// in zones east of UTC with daylight saving, on and after the days that have 23 or 25 hours: the keywords go back whole
// calendar days. The oracle is integer day arithmetic; the time package is only used to write the offset into the entry.

type c06NowCase struct {
	Zone    string `json:"zone"`
	Day     int    `json:"day"`     // today's calendar date (day number)
	Minute  int    `json:"minute"`  // local time of day
	Keyword string `json:"keyword"` // yesterday | last7 | last30 | today
}

func checkC06NowDST(c c06NowCase, ctx *vCtx) *vFailure {
	loc := vZone(c.Zone)
	y, m, d := vCivil(c.Day)
	now := time.Date(y, time.Month(m), d, c.Minute/60, c.Minute%60, 0, 0, loc)
	cfg := vWriteFile("c06-now.conf", "[Global]\nNow="+now.Format(time.RFC3339)+"\n")
	back := map[string]int{"today": 0, "yesterday": 1, "last7": 7, "last30": 30}[c.Keyword]
	var lb strings.Builder
	for dd := c.Day - 33; dd <= c.Day+2; dd++ {
		fmt.Fprintf(&lb, "%s:\n  food of day %d: 1\n", vFmtDay(dd, ""), dd-c.Day)
	}
	lp := vWriteFile("c06-now-log.yaml", lb.String())
	bp := vWriteFile("c06-now-book.yaml", "unused:\n  x: 1\n")
	run := func(arg string) vRun {
		ctx.Run(1)
		return vRunApp(vInvocation{Args: []string{"--config", cfg, "-d", bp, "-l", lp, "--no-color", "summary", arg}, TZ: c.Zone})
	}
	got, want := run(c.Keyword), run(vFmtDay(c.Day-back, ""))
	ctx.NonTrivial(true)
	ctx.Label("zone:" + c.Zone)
	if got.Failed || want.Failed {
		return vFailf("summary %s / summary %s with Now=%s under TZ=%s failed: %s / %s", c.Keyword, vFmtDay(c.Day-back, ""), now.Format(time.RFC3339), c.Zone, got, want)
	}
	if want.Stdout == "" {
		vFault("C06 nowdst: the reference summary is empty")
	}
	if got.Stdout != want.Stdout {
		return vFailf("Now=%s under TZ=%s: summary %s is not the summary of %s (%d calendar days before today).\n--- got:\n%s\n--- expected:\n%s", now.Format(time.RFC3339), c.Zone, c.Keyword, vFmtDay(c.Day-back, ""), back, vTrunc(got.Stdout, 500), vTrunc(want.Stdout, 500))
	}
	return nil
}

// ---------------------------------------------------------------------------
// summary of a day that has 23 or 25 hours in the process zone, with records in its first and last hour (zone layout,
// every record written with the offset the zone has at that moment)

func c06ZoneDSTSpace() []c06Case {
	plain := vLayout{Indent: "  ", Sep: ": ", EOL: "\n"}
	type rec struct{ dd, min, off int }
	mk := func(tz string, day int, argMin, argOff int, recs []rec) c06Case {
		var s vScenario
		s.Exact = true
		s.Book = vDoc{Recs: []vRec{{Head: "meal", HL: vLayout{EOL: "\n"}, Lines: []vLine{{Kind: vkEntry, Name: "x", Num: "2", L: plain}}}}}
		s.Recipes, s.Basics = []string{"meal"}, []string{"x"}
		c := c06Case{Layout: c06ZoneLayout, Clock: true, Today: day, TZ: tz}
		for i, r := range recs {
			s.Days = append(s.Days, day+r.dd)
			s.Log.Recs = append(s.Log.Recs, vRec{Head: "placeholder", HL: vLayout{EOL: "\n"}, Lines: []vLine{{Kind: vkEntry, Name: fmt.Sprintf("food %d", i), Num: fmt.Sprint(i + 1), L: plain}}})
			c.Mins = append(c.Mins, r.min)
			c.Offs = append(c.Offs, r.off)
		}
		c.S = s
		c.Summary = &c06Bound{Kind: "date", Day: day}
		c.BMins[0], c.BOffs[0] = argMin, argOff
		return c
	}
	var out []c06Case
	fall, spring := vDaysFromCivil(2021, 10, 31), vDaysFromCivil(2021, 3, 28)
	// Europe/Berlin: +0100 in winter, +0200 in summer; the change happens at 01:00 UTC
	for _, argMin := range []int{30, 12 * 60, 23*60 + 30} {
		argOffFall, argOffSpring := 60, 120
		if argMin == 30 {
			argOffFall, argOffSpring = 120, 60
		}
		out = append(out,
			mk("Europe/Berlin", fall, argMin, argOffFall, []rec{{-1, 23*60 + 30, 120}, {0, 30, 120}, {0, 2*60 + 30, 120}, {0, 2*60 + 30, 60}, {0, 12 * 60, 60}, {0, 23*60 + 30, 60}, {1, 30, 60}}),
			mk("Europe/Berlin", spring, argMin, argOffSpring, []rec{{-1, 23*60 + 30, 60}, {0, 30, 60}, {0, 3*60 + 30, 120}, {0, 12 * 60, 120}, {0, 23*60 + 30, 120}, {1, 30, 120}}),
			mk("UTC", fall, argMin, 0, []rec{{-1, 23*60 + 30, 0}, {0, 30, 0}, {0, 23*60 + 30, 0}, {1, 30, 0}}))
	}
	return out
}

func TestVerifC06ZoneDST(t *testing.T) {
	space := c06ZoneDSTSpace()
	vEnum(t, "C06", "c06.zonedst",
		"summary of 2021-10-31 (25 hours in Europe/Berlin) and 2021-03-28 (23 hours), the date written at 00:30, 12:00 or 23:30 with the zone's own offset, process zone Europe/Berlin, records in the last hour of the previous day, the first, the repeated or skipped and the last hour of the day and the first hour of the next; oracle: the same file with the records outside that local calendar day deleted (zone rules from the time package)",
		fmt.Sprintf("%d cases", len(space)), len(space), func(i int) c06Case { return space[i] }, checkC06)
}

// a layout with a zone abbreviation, in a process zone that knows the abbreviation: a record and a bound written with the
// same text are the same instant, so the day equal to a bound is inside the period and `summary` of that text shows it

type c06AbbrCase struct {
	Zone string `json:"zone"`
	Abbr string `json:"abbr"`
	Cmd  int    `json:"cmd"` // 0 reg -b, 1 reg -e, 2 csv log with -b and -e on the command, 3 summary, 4 bal -b global
	Hour int    `json:"hour"`
}

func checkC06Abbr(c c06AbbrCase, ctx *vCtx) *vFailure {
	layout := "2006/01/02 15:04 MST"
	head := func(d int) string { return fmt.Sprintf("%s %02d:00 %s", vFmtDay(d, ""), c.Hour, c.Abbr) }
	var lb strings.Builder
	for d := 3; d <= 7; d++ {
		fmt.Fprintf(&lb, "%s:\n  food of day %d: %d\n", head(d), d, d)
	}
	lp := vWriteFile("c06-abbr-log.yaml", lb.String())
	bp := vWriteFile("c06-abbr-book.yaml", "unused:\n  x: 1\n")
	base := []string{"--today", head(9), "--date-format", layout, "-d", bp, "-l", lp, "--no-color"}
	var args []string
	want := map[int]bool{}
	switch c.Cmd {
	case 0:
		args = append(base, "reg", "-b", head(5))
		want = map[int]bool{5: true, 6: true, 7: true}
	case 1:
		args = append(base, "reg", "-e", head(5))
		want = map[int]bool{3: true, 4: true, 5: true}
	case 2:
		args = append(base, "csv", "log", "-b", head(4), "-e", head(6))
		want = map[int]bool{4: true, 5: true, 6: true}
	case 3:
		args = append(base, "summary", head(5))
		want = map[int]bool{5: true}
	default:
		args = append(append([]string{"-b", head(6)}, base...), "bal")
		want = map[int]bool{6: true, 7: true}
	}
	r := vRunApp(vInvocation{Args: args, TZ: c.Zone})
	ctx.Run(1)
	ctx.NonTrivial(true)
	ctx.Label("zone:" + c.Zone)
	if r.Failed {
		return vFailf("%v under TZ=%s fails: %s", args, c.Zone, r.Err)
	}
	for d := 3; d <= 7; d++ {
		shown := strings.Contains(r.Stdout, fmt.Sprintf("food of day %d", d))
		if shown != want[d] {
			return vFailf("%v under TZ=%s: the record headed %q is shown=%v, expected %v (a bound written like a heading is the same instant; the period is inclusive)\n%s", args, c.Zone, head(d), shown, want[d], vTrunc(r.Stdout, 800))
		}
	}
	return nil
}

func TestVerifC06Abbr(t *testing.T) {
	var space []c06AbbrCase
	for _, z := range [][2]string{{"America/Denver", "MST"}, {"Europe/Berlin", "CET"}, {"Asia/Tokyo", "JST"}, {"UTC", "UTC"}, {"UTC", "CET"}, {"America/New_York", "EST"}, {"Europe/Berlin", "MST"}} {
		for cmd := 0; cmd < 5; cmd++ {
			for _, h := range []int{0, 8, 23} {
				space = append(space, c06AbbrCase{Zone: z[0], Abbr: z[1], Cmd: cmd, Hour: h})
			}
		}
	}
	vEnum(t, "C06", "c06.zoneabbr",
		"date layout with a zone abbreviation (2006/01/02 15:04 MST), process zones that know the abbreviation written in the log (Denver/MST, Berlin/CET, Tokyo/JST, New York/EST) and that do not (UTC/CET, Berlin/MST), five records in January, bounds and summary argument written exactly like a heading; oracle: the day equal to a bound is inside, the others by order",
		fmt.Sprintf("%d combinations", len(space)), len(space), func(i int) c06AbbrCase { return space[i] }, checkC06Abbr)
}

func TestVerifC06NowDST(t *testing.T) {
	var space []c06NowCase
	type tr struct {
		zone   string
		spring [3]int // the day that has fewer than 24 hours
		fall   [3]int // the day that has more
	}
	for _, z := range []tr{{"Europe/Berlin", [3]int{2021, 3, 28}, [3]int{2021, 10, 31}}, {"Europe/Sofia", [3]int{2021, 3, 28}, [3]int{2021, 10, 31}},
		{"Australia/Lord_Howe", [3]int{2021, 10, 3}, [3]int{2021, 4, 4}}, {"Asia/Tokyo", [3]int{2021, 3, 28}, [3]int{2021, 10, 31}}} {
		sp, fa := vDaysFromCivil(z.spring[0], z.spring[1], z.spring[2]), vDaysFromCivil(z.fall[0], z.fall[1], z.fall[2])
		for _, kw := range []string{"today", "yesterday", "last7", "last30"} {
			for _, off := range []int{1, 3, 6, 20} {
				space = append(space, c06NowCase{Zone: z.zone, Day: sp + off, Minute: 30, Keyword: kw}, c06NowCase{Zone: z.zone, Day: sp + off, Minute: 12 * 60, Keyword: kw})
			}
			for _, off := range []int{0, 2, 5, 20} {
				space = append(space, c06NowCase{Zone: z.zone, Day: fa + off, Minute: 23*60 + 30, Keyword: kw}, c06NowCase{Zone: z.zone, Day: fa + off, Minute: 12 * 60, Keyword: kw})
			}
		}
	}
	vEnum(t, "C06", "c06.nowdst",
		"the current date from a Now= entry written as a local time with the zone's offset, process zone Europe/Berlin, Europe/Sofia, Australia/Lord_Howe (half-hour shift) or Asia/Tokyo (control), today 1..20 days after the short day at 00:30 or on/after the long day at 23:30, keywords today/yesterday/last7/last30 as summary argument; oracle: the summary of the date that many calendar days earlier",
		fmt.Sprintf("%d combinations", len(space)), len(space), func(i int) c06NowCase { return space[i] }, checkC06NowDST)
}

func init() {
	vRegister("C06", "c06.nowdst", checkC06NowDST)
	vRegister("C06", "c06.zoneabbr", checkC06Abbr)
	vRegister("C06", "c06.zonedst", checkC06)
	vRegister("C06", "c06.dst", checkC06)
	vRegister("C06", "c06.random", checkC06)
	vRegister("C06", "c06.enum", checkC06)
}

func TestVerifC06Enum(t *testing.T) {
	zones := vPick(1, 4)
	space := c06EnumSpace(zones)
	vEnum(t, "C06", "c06.enum",
		"every (begin,end) pair over {absent, 6 window days, day before, day after} (81 pairs) x 6 fixed logs (sorted, reversed, repeated dates, days outside the window) x 14 period-aware command variants x flag position {global, sub-command, both with decoy global values} x zones; expectation = output on the file reduced to the model-selected days without period flags; non-trivial = proper non-empty subset selected, or a day equals a bound, or begin > end",
		fmt.Sprintf("81 (begin,end) pairs x 6 logs x 14 commands x positions x %d zone(s)", zones), len(space),
		func(i int) c06Case { return c06EnumCase(space[i]) }, checkC06)
}

func TestVerifC06Random(t *testing.T) {
	vRapid(t, "C06", "c06.random",
		"random logs (1-7 days from a 6-day window placed at a month, year or leap-day boundary or around a daylight-saving change, any order, repeats, occasional day outside), --today in the window, begin/end from {absent, window +-1, today, yesterday, last7, last30}, 14 command variants + summary DATE, flag position global/sub-command/both, short/long option names, 3 date layouts, 12 zones incl. midnight DST changes and non-hour offsets (in-process via time.Local, 1/30 through the real binary with TZ)",
		vBudget(4000, 64000), genC06, checkC06)
}
