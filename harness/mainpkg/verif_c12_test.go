//go:build go1.21

package main

// C12 — reports compose over the log history (stateful generation: a rapid
// state machine appends day blocks; the invariant is checked on every prefix).

import (
	"fmt"
	"math/big"
	"strings"
	"testing"

	"pgregory.net/rapid"
)

type c12Block struct {
	Recs []vRec `json:"recs"`
	Days []int  `json:"days"`
	How  string `json:"how"`
}

type c12Case struct {
	S      vScenario  `json:"s"` // book (+ an unused empty log)
	Blocks []c12Block `json:"blocks"`
	X      string     `json:"x"`
	Food   string     `json:"food"`
	Begin  int        `json:"begin"` // day numbers for the commands that carry a period
	End    int        `json:"end"`
}

func (b c12Block) text() string { return vDoc{Recs: b.Recs}.Render() }

var c12PerDay = [][]string{
	{"reg", "--no-color", "-e", "@END@"},
	{"csv", "log", "-b", "@BEGIN@", "-e", "@END@"},
	{"print", "-b", "@BEGIN@"},
	{"reg", "--no-color"},
	{"reg", "--no-color", "--internal-template-name", "left-aligned"},
	{"reg", "--no-color", "--use-old-reg-reporter"},
	{"csv", "log"},
	{"print"},
	{"reg", "-f", "@FOOD@"},
	{"reg", "-s", "@X@"},
}

var c12Period = [][]string{
	{"report", "quantity", "-e", "@END@"},
	{"bal", "--collapse"},
	{"bal", "--collapse-last"},
	{"bal", "--collapse", "-s", "@X@"},
	{"bal"},
	{"bal", "-s", "@X@"},
	{"report", "totals"},
	{"report", "quantity"},
}

// c12Maps turns the output of a period command into name -> list of numbers.
func c12Maps(cmd []string, out string) map[string][]*big.Rat {
	m := map[string][]*big.Rat{}
	switch {
	case cmd[0] == "bal" && len(cmd) > 1 && strings.HasPrefix(cmd[1], "--collapse"):
		// collapse modes join path segments, so rows of parts and whole need not carry the same labels;
		// what composes is the sum of the top-level rows (and the grand total)
		b := vReadBalance(out, len(cmd) > 2)
		sum := new(big.Rat)
		for _, r := range b.Rows {
			if r.Depth == 0 {
				sum.Add(sum, vNum(r.Val))
			}
		}
		n := 0
		for _, r := range b.Rows {
			if r.Depth == 0 {
				n++
			}
		}
		m["\x00top-level-sum"] = []*big.Rat{sum}
		m["\x00top-level-rows"] = []*big.Rat{big.NewRat(int64(n), 1)} // only used for the tolerance
		if b.HasTotal {
			m["\x00total"] = []*big.Rat{vNum(b.Total)}
		}
	case cmd[0] == "bal":
		b := vReadBalance(out, len(cmd) > 1)
		for _, r := range b.Rows {
			m["path:"+r.Path] = []*big.Rat{vNum(r.Val)}
		}
		if b.HasTotal {
			m["\x00total"] = []*big.Rat{vNum(b.Total)}
		}
	case cmd[1] == "totals":
		for _, r := range vReadTotals(out) {
			m[r.Name] = []*big.Rat{vNum(r.Pos), vNum(r.Neg), vNum(r.Sum)}
		}
	case cmd[1] == "quantity":
		fallthrough
	case cmd[0] == "report" && len(cmd) > 2 && cmd[1] == "quantity":
		for _, r := range vReadValName(out) {
			m[r.Name] = []*big.Rat{vNum(r.Val)}
		}
	}
	return m
}

// c12Mags: for a period command, the sum of the magnitudes of everything the entries of blocks 0..upto add to each
// figure of its report (keys as in c12Maps), the same over all figures, and the number of entries.
func c12Mags(cmd []string, c c12Case, upto int, m vResolved) (map[string]*big.Rat, *big.Rat, int) {
	mags := map[string]*big.Rat{}
	all := new(big.Rat)
	n := 0
	add := func(key string, v *big.Rat) {
		cur, ok := mags[key]
		if !ok {
			cur = new(big.Rat)
			mags[key] = cur
		}
		cur.Add(cur, v)
	}
	coef := func(f, e string) *big.Rat {
		if em, ok := m.Elems[f]; ok {
			if v, ok := em[e]; ok {
				return v.Mag
			}
			return new(big.Rat)
		}
		if f == e {
			return big.NewRat(1, 1)
		}
		return new(big.Rat)
	}
	x := ""
	for i := 0; i+1 < len(cmd); i++ {
		if cmd[i] == "-s" {
			x = cmd[i+1]
		}
	}
	for j := 0; j <= upto && j < len(c.Blocks); j++ {
		for _, r := range c.Blocks[j].Recs {
			for _, l := range r.Lines {
				if l.Kind != vkEntry {
					continue
				}
				n++
				q := vRatAbs(vRat(l.Num))
				switch {
				case cmd[0] == "bal":
					w := q
					if x != "" {
						w = vRatMul(q, coef(l.Name, x))
					}
					all.Add(all, w)
					segs := strings.Split(l.Name, "/")
					for i := range segs {
						add("path:"+strings.Join(segs[:i+1], "/"), w)
					}
				case len(cmd) > 1 && cmd[1] == "totals":
					if em, ok := m.Elems[l.Name]; ok {
						for e, v := range em {
							w := vRatMul(q, v.Mag)
							add(e, w)
							all.Add(all, w)
						}
					} else {
						add(l.Name, q)
						all.Add(all, q)
					}
				default:
					add(l.Name, q)
					all.Add(all, q)
				}
			}
		}
	}
	return mags, all, n
}

func checkC12(c c12Case, ctx *vCtx) *vFailure {
	bookPath := vWriteFile("c12-book.yaml", c.S.Book.Render())
	subst := func(cmd []string) []string {
		out := make([]string, len(cmd))
		for i, a := range cmd {
			a = strings.ReplaceAll(a, "@X@", c.X)
			a = strings.ReplaceAll(a, "@FOOD@", c.Food)
			a = strings.ReplaceAll(a, "@BEGIN@", vFmtDay(c.Begin, ""))
			a = strings.ReplaceAll(a, "@END@", vFmtDay(c.End, ""))
			out[i] = a
		}
		return out
	}
	run := func(logText string, cmd []string) string {
		lp := vWriteFile("c12-log.yaml", logText)
		sc := subst(cmd)
		var global []string
		if sc[0] == "report" && len(sc) > 2 { // report sub-commands take the period as global flags
			global, sc = sc[2:], sc[:2]
		}
		r := vRunApp(vInvocation{Args: append(append(append([]string{"--today", vToday}, global...), "-d", bookPath, "-l", lp), sc...)})
		ctx.Run(1)
		if r.Failed {
			vViolate("C12: %v failed on a valid log: %s", cmd, r)
		}
		return r.Stdout
	}
	// shape
	repeated, empty, permuted := false, false, false
	seenDay := map[int]bool{}
	for _, b := range c.Blocks {
		if b.How == "permuted" {
			permuted = true
		}
		for i, d := range b.Days {
			if seenDay[d] {
				repeated = true
			}
			seenDay[d] = true
			if len(b.Recs[i].Lines) == 0 {
				empty = true
			}
		}
		ctx.Label("action:" + b.How)
	}
	ctx.NonTrivial(len(c.Blocks) >= 3 && (repeated || empty || permuted))
	ctx.Labelf("blocks=%d", len(c.Blocks))

	model := vModelResolve(c.S.Book.Parsed())
	ncmd := len(c12PerDay) + len(c12Period)
	partOut := make([][]string, len(c.Blocks)) // [block][cmd]
	whole := ""
	for k, b := range c.Blocks {
		bt := b.text()
		whole += bt
		partOut[k] = make([]string, ncmd)
		for ci, cmd := range c12PerDay {
			partOut[k][ci] = run(bt, cmd)
		}
		for ci, cmd := range c12Period {
			partOut[k][len(c12PerDay)+ci] = run(bt, cmd)
		}
		if k == 0 {
			continue
		}
		// invariant on the prefix of k+1 blocks
		for ci, cmd := range c12PerDay {
			got := run(whole, cmd)
			want := ""
			for j := 0; j <= k; j++ {
				want += partOut[j][ci]
			}
			if got != want {
				return vFailf("%v: the report of the concatenated log (%d blocks) is not the concatenation of the reports of its parts.\n--- whole:\n%s\n--- parts concatenated:\n%s", subst(cmd), k+1, vTrunc(got, 2500), vTrunc(want, 2500))
			}
		}
		for ci, cmd := range c12Period {
			got := c12Maps(cmd, run(whole, cmd))
			mags, magAll, nEntries := c12Mags(subst(cmd), c, k, model)
			sum := map[string][]*big.Rat{}
			nparts := map[string]int{}
			for j := 0; j <= k; j++ {
				for name, vals := range c12Maps(cmd, partOut[j][len(c12PerDay)+ci]) {
					cur, ok := sum[name]
					if !ok {
						cur = make([]*big.Rat, len(vals))
						for i := range cur {
							cur[i] = new(big.Rat)
						}
					}
					for i := range vals {
						cur[i] = vRatAdd(cur[i], vals[i])
					}
					sum[name] = cur
					nparts[name]++
				}
			}
			// the grand total row exists in every part
			if len(got) != len(sum) {
				return vFailf("%v: the concatenated log (%d blocks) shows %d names, its parts together %d\nwhole: %v\nparts: %v", subst(cmd), k+1, len(got), len(sum), vSortedKeys(got), vSortedKeys(sum))
			}
			// the number of top-level rows is not additive (the same category may occur in several parts)
			extraRows := int64(0)
			if v, ok := sum["\x00top-level-rows"]; ok {
				extraRows = v[0].Num().Int64() + got["\x00top-level-rows"][0].Num().Int64()
				delete(sum, "\x00top-level-rows")
				delete(got, "\x00top-level-rows")
			}
			for name, vals := range sum {
				g, ok := got[name]
				if !ok {
					return vFailf("%v: %q appears in a part but not in the report of the concatenated log", subst(cmd), name)
				}
				for i := range vals {
					tol := new(big.Rat)
					if !c.S.Exact {
						// half a cent per printed figure + float64 resolution at this magnitude
						tol = vRatMul(big.NewRat(int64(nparts[name])+1, 2), vCent)
						// what float64 may lose: one rounding per addition (at most one addition per entry of the log), each
						// relative to the magnitude of everything that was added to this figure (not to the figure itself,
						// which may be what is left after large amounts cancelled)
						mag, ok := mags[name]
						if !ok || strings.HasPrefix(name, "\x00") {
							mag = magAll
						}
						tol.Add(tol, vRatMul(big.NewRat(int64(nEntries+nparts[name]+8)*46, 100000000000000000), mag))
						if name == "\x00top-level-sum" { // a sum of that many printed figures
							tol.Add(tol, vRatMul(big.NewRat(extraRows, 2), vCent))
						}
					}
					if vRatAbs(vRatSub(g[i], vals[i])).Cmp(tol) > 0 {
						return vFailf("%v: %q: the concatenated log (%d blocks) shows %s, the parts sum to %s", subst(cmd), name, k+1, g[i].FloatString(2), vals[i].FloatString(2))
					}
				}
			}
		}
	}
	return nil
}

func genC12(t *rapid.T) c12Case {
	vLongNameOneIn = 4 // names longer than the 27/20-column fields
	defer func() { vLongNameOneIn = 10 }()
	exact := rapid.IntRange(0, 3).Draw(t, "exact") > 0
	// category paths over an alphabet in which one segment is a proper prefix of another ("a" / "ax" / "a b")
	s := vGenScenario(t, vScenOpts{Paths: rapid.Bool().Draw(t, "paths"), MinDays: 0, MaxDays: 0, Exact: &exact, NUnknown: 3, PathSegs: []string{"a", "ax", "b", "a b", "dd", "c"}, PathMax: 4})
	foods := append(append(append([]string{}, s.Recipes...), s.Basics...), s.Unknown...)
	// one history in three knows two pairs of recipes whose name and quantity spell the same text when glued together
	// ("gl~b1" 2 / "gl~b" 12, 15 "gl~c" / 1 "5gl~c"); its days use them with exactly those quantities now and then
	var twinEntries [][2]string
	if rapid.IntRange(0, 2).Draw(t, "twins") == 0 {
		plainL := vLayout{Indent: "  ", Sep: ": ", EOL: "\n"}
		e, e2 := s.Basics[0], s.Basics[len(s.Basics)-1]
		for _, r := range [][]string{{"gl~b", e, "2"}, {"gl~b1", e, "3", e2, "1"}, {"gl~c", e, "2"}, {"5gl~c", e, "3", e2, "1"}} {
			rec := vRec{Head: r[0], HL: vLayout{EOL: "\n"}}
			for i := 1; i+1 < len(r); i += 2 {
				rec.Lines = append(rec.Lines, vLine{Kind: vkEntry, Name: r[i], Num: r[i+1], L: plainL})
			}
			s.Book.Recs = append(s.Book.Recs, rec)
		}
		s.Book.NoFinalNL = false
		twinEntries = [][2]string{{"gl~b1", "2"}, {"gl~b", "12"}, {"gl~c", "15"}, {"5gl~c", "1"}}
	}
	c := c12Case{S: s}
	c.S.Log = vDoc{}
	c.S.Days = nil
	c.X = s.Basics[rapid.IntRange(0, len(s.Basics)-1).Draw(t, "x")]
	c.Food = vQuoteMeta(foods[rapid.IntRange(0, len(foods)-1).Draw(t, "food")])
	maxBlocks := vPick(8, 20)
	lo := vLayoutOpts{Plain: true}
	if rapid.IntRange(0, 3).Draw(t, "varlayout") == 0 {
		lo = vLayoutOpts{EOL: "mixed"}
	}
	// the history may start just before a leap-year end (2020-12-30, 2024-12-30) or a month end
	nextDay := []int{0, 0, -2, 1459, 57}[rapid.IntRange(0, 4).Draw(t, "startday")]
	c.Begin = nextDay + rapid.IntRange(0, 4).Draw(t, "begin")
	c.End = nextDay + rapid.IntRange(0, 6).Draw(t, "end")
	var allDays []vRec
	var allDayNums []int
	bigDone := false // set once a day gave the food "big~u" a huge amount
	bulk := false    // set once a block with hundreds of different foods was appended: later days reuse those names
	bulkName := func(rt *rapid.T) string { return fmt.Sprintf("bulk %d", rapid.IntRange(0, 1799).Draw(rt, "bulkn")) }
	genDay := func(rt *rapid.T, day int, minEntries int) vRec {
		ne := rapid.IntRange(minEntries, 5).Draw(rt, "nent")
		if rapid.IntRange(0, 11).Draw(rt, "longday") == 0 {
			ne = rapid.IntRange(17, 90).Draw(rt, "nentlong") // beyond any small-size fast path, several per history
		}
		var lines []vLine
		for k := 0; k < ne; k++ {
			nm := foods[rapid.IntRange(0, len(foods)-1).Draw(rt, "food")]
			if bulk && rapid.IntRange(0, 2).Draw(rt, "usebulk") == 0 {
				nm = bulkName(rt)
			}
			var num string
			if exact {
				num = vGenQtyExact(rt, "q")
			} else {
				num = vGenNumDecimal(rt, "q")
			}
			if twinEntries != nil && rapid.IntRange(0, 3).Draw(rt, "twin") == 0 {
				te := twinEntries[rapid.IntRange(0, len(twinEntries)-1).Draw(rt, "twini")]
				nm, num = te[0], te[1]
			}
			lines = append(lines, vLine{Kind: vkEntry, Name: nm, Num: num, L: vGenEntryLayout(rt, lo, "el")})
		}
		// one day in three carries notes (before, between or after its entries)
		if rapid.IntRange(0, 2).Draw(rt, "notes") == 0 {
			for k := rapid.IntRange(1, 3).Draw(rt, "nnotes"); k > 0; k-- {
				at := rapid.IntRange(0, len(lines)).Draw(rt, "noteat")
				nl := vGenNoteLine(rt, vLayoutOpts{NoLong: true}, "note")
				lines = append(lines[:at], append([]vLine{nl}, lines[at:]...)...)
			}
		}
		return vRec{Head: vFmtDay(day, ""), HL: vGenHeadLayout(rt, lo, "hl"), Lines: lines}
	}
	push := func(how string, recs []vRec, days []int) {
		if len(c.Blocks) >= maxBlocks {
			return
		}
		c.Blocks = append(c.Blocks, c12Block{Recs: recs, Days: days, How: how})
		allDays = append(allDays, recs...)
		allDayNums = append(allDayNums, days...)
	}
	t.Repeat(map[string]func(*rapid.T){
		"fresh": func(rt *rapid.T) {
			d := nextDay
			nextDay++
			push("fresh", []vRec{genDay(rt, d, 1)}, []int{d})
		},
		"used-date": func(rt *rapid.T) {
			if len(allDayNums) == 0 {
				rt.Skip("no day yet")
			}
			d := allDayNums[rapid.IntRange(0, len(allDayNums)-1).Draw(rt, "which")]
			push("used-date", []vRec{genDay(rt, d, 0)}, []int{d})
		},
		"empty-day": func(rt *rapid.T) {
			d := nextDay
			if len(allDayNums) > 0 && rapid.Bool().Draw(rt, "old") {
				d = allDayNums[rapid.IntRange(0, len(allDayNums)-1).Draw(rt, "which")]
			} else {
				nextDay++
			}
			push("empty-day", []vRec{{Head: vFmtDay(d, ""), HL: vGenHeadLayout(rt, lo, "hl")}}, []int{d})
		},
		"permuted": func(rt *rapid.T) {
			var cand []int
			for i, r := range allDays {
				if len(r.Lines) >= 2 {
					cand = append(cand, i)
				}
			}
			if len(cand) == 0 {
				rt.Skip("no day with two entries yet")
			}
			i := cand[rapid.IntRange(0, len(cand)-1).Draw(rt, "which")]
			src := allDays[i]
			perm := rapid.Permutation(vIota(len(src.Lines))).Draw(rt, "perm")
			nr := vRec{Head: src.Head, HL: src.HL}
			for _, p := range perm {
				nr.Lines = append(nr.Lines, src.Lines[p])
			}
			push("permuted", []vRec{nr}, []int{allDayNums[i]})
		},
		"many-foods": func(rt *rapid.T) {
			// a day with hundreds of different foods (more rows than any fixed-size table in a reporter)
			if rapid.IntRange(0, 3).Draw(rt, "rare") != 0 {
				rt.Skip("drawn rarely")
			}
			d := nextDay
			nextDay++
			ne := []int{rapid.IntRange(150, 420).Draw(rt, "nent"), rapid.IntRange(600, 1400).Draw(rt, "nentbig")}[rapid.IntRange(0, 1).Draw(rt, "size")] // up to ~1000 different foods in one day
			var lines []vLine
			for k := 0; k < ne; k++ {
				num := vGenQtyExact(rt, "q")
				lines = append(lines, vLine{Kind: vkEntry, Name: bulkName(rt), Num: num, L: vGenEntryLayout(rt, lo, "el")})
			}
			bulk = true
			push("many-foods", []vRec{{Head: vFmtDay(d, ""), HL: vGenHeadLayout(rt, lo, "hl"), Lines: lines}}, []int{d})
		},
		"same-date-run": func(rt *rapid.T) {
			// many records under one date (an import that writes one record per meal), more rows than any output buffer holds
			if rapid.IntRange(0, 3).Draw(rt, "rare") != 0 {
				rt.Skip("drawn rarely")
			}
			d := nextDay
			nextDay++
			n := []int{120, 200, 400}[rapid.IntRange(0, 2).Draw(rt, "nrecs")]
			plainL := vLayout{Indent: "  ", Sep: ": ", EOL: "\n"}
			var recs []vRec
			var days []int
			for k := 0; k < n; k++ {
				nm := foods[(k*7+len(allDays))%len(foods)]
				recs = append(recs, vRec{Head: vFmtDay(d, ""), HL: vLayout{EOL: "\n"}, Lines: []vLine{{Kind: vkEntry, Name: nm, Num: fmt.Sprint(k%9 + 1), L: plainL}, {Kind: vkEntry, Name: c.X, Num: "1", L: plainL}}})
				days = append(days, d)
			}
			push("same-date-run", recs, days)
		},
		"same-menu": func(rt *rapid.T) {
			// the same entries as the day before (names, quantities, order), under the next date
			if len(allDays) == 0 || len(allDays[len(allDays)-1].Lines) == 0 {
				rt.Skip("no day to repeat yet")
			}
			src := allDays[len(allDays)-1]
			if len(src.Lines) < 4 && rapid.Bool().Draw(rt, "lengthen") {
				// at least four entries, like a real menu
				for len(src.Lines) < 4 {
					src.Lines = append(append([]vLine{}, src.Lines...), src.Lines[0])
				}
				d0 := nextDay
				nextDay++
				push("same-menu-first", []vRec{{Head: vFmtDay(d0, ""), HL: src.HL, Lines: src.Lines}}, []int{d0})
			}
			d := nextDay
			nextDay++
			push("same-menu", []vRec{{Head: vFmtDay(d, ""), HL: src.HL, Lines: append([]vLine{}, src.Lines...)}}, []int{d})
		},
		"big-then-small": func(rt *rapid.T) {
			// a food whose running total is huge (first time), and later days on which a small amount of it is followed
			// directly by another food: what is lost in the huge sum must not turn up anywhere else
			if exact || rapid.IntRange(0, 2).Draw(rt, "rare") != 0 {
				rt.Skip("inexact histories only, drawn rarely")
			}
			d := nextDay
			nextDay++
			rec := genDay(rt, d, 1)
			plainL := vLayout{Indent: "  ", Sep: ": ", EOL: "\n"}
			if !bigDone {
				rec.Lines = append(rec.Lines, vLine{Kind: vkEntry, Name: "big~u", Num: []string{"1000000000000000", "4503599627370497", "-2000000000000000", "300000000000000"}[rapid.IntRange(0, 3).Draw(rt, "bigv")], L: plainL})
				bigDone = true
			} else {
				at := rapid.IntRange(0, len(rec.Lines)).Draw(rt, "smallat")
				after := "after~big"
				if rapid.Bool().Draw(rt, "afterfood") {
					after = foods[rapid.IntRange(0, len(foods)-1).Draw(rt, "afterfoodi")]
				}
				two := []vLine{
					{Kind: vkEntry, Name: "big~u", Num: []string{"0.3", "0.1", "-0.7", "0.05", "1.1"}[rapid.IntRange(0, 4).Draw(rt, "smallv")], L: plainL},
					{Kind: vkEntry, Name: after, Num: []string{"5", "0.125", "2.5", "1"}[rapid.IntRange(0, 3).Draw(rt, "afterv")], L: plainL}}
				rec.Lines = append(rec.Lines[:at], append(two, rec.Lines[at:]...)...)
			}
			push("big-then-small", []vRec{rec}, []int{d})
		},
		"multi-day": func(rt *rapid.T) {
			n := rapid.IntRange(2, 3).Draw(rt, "n")
			var recs []vRec
			var days []int
			for k := 0; k < n; k++ {
				d := nextDay
				if len(allDayNums) > 0 && rapid.IntRange(0, 2).Draw(rt, "old") == 0 {
					d = allDayNums[rapid.IntRange(0, len(allDayNums)-1).Draw(rt, "which")]
				} else {
					nextDay++
				}
				recs = append(recs, genDay(rt, d, 0))
				days = append(days, d)
			}
			push("multi-day", recs, days)
		},
	})
	return c
}

// ---------------------------------------------------------------------------
// a long gap: a food (and its elements) mentioned on one day and again exactly g days later, with other days in
// between (g = 2^8, 2^16 and their neighbours: whatever a reporter keeps per name between days must survive any distance)

type c12GapCase struct {
	Gap int `json:"gap"`
	Cmd int `json:"cmd"`
}

var c12GapCmds = [][]string{{"reg", "--no-color"}, {"reg", "--no-color", "--use-old-reg-reporter"}, {"reg", "--no-color", "--internal-template-name", "left-aligned"}, {"print"}, {"csv", "log"}, {"reg", "-s", "x"}}

func checkC12Gap(c c12GapCase, ctx *vCtx) *vFailure {
	bp := vWriteFile("c12-gap-book.yaml", "first:\n  x: 2\n  z: 1\nother:\n  y: 3\n")
	var l1 strings.Builder
	l1.WriteString(vFmtDay(0, "") + ":\n  first: 1\n")
	for d := 1; d < c.Gap; d++ {
		l1.WriteString(vFmtDay(d, "") + ":\n  other: 1\n")
	}
	l2 := vFmtDay(c.Gap, "") + ":\n  first: 2\n  other: 1\n"
	cmd := c12GapCmds[c.Cmd%len(c12GapCmds)]
	run := func(text string) string {
		lp := vWriteFile("c12-gap-log.yaml", text)
		r := vRunApp(vInvocation{Args: append([]string{"--today", vToday, "-d", bp, "-l", lp}, cmd...)})
		ctx.Run(1)
		if r.Failed {
			vViolate("C12 gap: %v failed on a valid log: %s", cmd, vTrunc(r.String(), 500))
		}
		return r.Stdout
	}
	ctx.NonTrivial(true)
	ctx.Labelf("gap=%d", c.Gap)
	a, b := run(l1.String()), run(l2)
	whole := run(l1.String() + l2)
	if whole != a+b {
		// show the end, where the appended day is
		return vFailf("%v: a history of %d days with one more day appended: the report of the whole is not the report of the history followed by the report of that day.\n--- end of the whole:\n%s\n--- report of the appended day alone:\n%s", cmd, c.Gap, vTrunc(whole[vMax(0, len(whole)-600):], 700), vTrunc(b, 700))
	}
	return nil
}

// c12.align: the first day of the log is S bytes long, for every S around the sizes at which a reader refills its buffer:
// the day appended behind it is shown under its own date

type c12AlignCase struct {
	Size int `json:"size"`
}

func checkC12Align(c c12AlignCase, ctx *vCtx) *vFailure {
	first := "2021/03/04:\n  bread: 1\n"
	pad := c.Size - len(first) - 2
	if pad < 0 {
		pad = 0
	}
	text := first + "#" + strings.Repeat("p", pad) + "\n" + "2021/03/05:\n  milk: 2\n2021/03/06:\n  tea: 3\n"
	lp := vWriteFile("c12-align-log.yaml", text)
	bp := vWriteFile("c12-align-book.yaml", "unused:\n  x: 1\n")
	r := vRunApp(vInvocation{Args: []string{"--today", vToday, "-d", bp, "-l", lp, "csv", "log"}})
	ctx.Run(1)
	ctx.NonTrivial(true)
	if r.Failed {
		return vFailf("csv log fails on a log whose first day is %d bytes long: %s", c.Size, r.Err)
	}
	want := "2021-03-04,bread,1.000\n2021-03-05,milk,2.000\n2021-03-06,tea,3.000\n"
	if r.Stdout != want {
		return vFailf("csv log of a log whose first day is %d bytes long (then 2021/03/05 and 2021/03/06):\n%s--- expected:\n%s", c.Size, r.Stdout, want)
	}
	return nil
}

func TestVerifC12Align(t *testing.T) {
	var space []c12AlignCase
	for _, around := range []int{4096, 8192, 65536} {
		for d := -45; d <= 12; d++ {
			space = append(space, c12AlignCase{Size: around + d})
		}
	}
	vEnum(t, "C12", "c12.align",
		"a first day of exactly S bytes for every S in 4051..4108, 8147..8204 and 65491..65548 (where a reader refills its buffer), followed by two more days: csv log must show each day under its own date",
		fmt.Sprintf("%d sizes", len(space)), len(space), func(i int) c12AlignCase { return space[i] }, checkC12Align)
}

func TestVerifC12Gap(t *testing.T) {
	gaps := []int{256, 65536}
	if vThorough() {
		gaps = []int{255, 256, 257, 4096, 65535, 65536, 65537, 131072}
	}
	var space []c12GapCase
	for _, g := range gaps {
		for ci := range c12GapCmds {
			space = append(space, c12GapCase{Gap: g, Cmd: ci})
		}
	}
	vEnum(t, "C12", "c12.gap",
		"a history of g days (g = 256, 65536; thorough also their neighbours, 4096 and 131072) whose first day logs a food that is logged again only on the appended day g, with another food on every day in between; six per-day reports: the report of the whole is the concatenation of the reports of the history and of the appended day",
		fmt.Sprintf("%d (gap, command) combinations", len(space)), len(space), func(i int) c12GapCase { return space[i] }, checkC12Gap)
}

func init() {
	vRegister("C12", "c12.align", checkC12Align)
	vRegister("C12", "c12.stateful", checkC12)
	vRegister("C12", "c12.gap", checkC12Gap)
}

func TestVerifC12Stateful(t *testing.T) {
	vRapid(t, "C12", "c12.stateful",
		"rapid state machine: actions append a fresh day, a day with an already used date, an empty day, a permutation of an earlier day, or a block of 2-3 days, to a history of up to 8 (quick) / 20 (thorough) blocks over a random book; after every step the 10 per-day reports (3 of them under a fixed -b/-e period) of the concatenated log must equal the concatenation of the parts' reports byte for byte and the 8 period reports the element-wise sum (collapse modes: the sum of the top-level rows) of the parts; non-trivial = >=3 blocks with a repeated date, an empty day or a permuted day",
		vBudget(800, 8000), genC12, checkC12)
}

var _ = fmt.Sprint
