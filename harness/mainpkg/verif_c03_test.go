//go:build go1.21

package main

// C03 — balance tree conserves logged quantities in every display mode.

import (
	"fmt"
	"math/big"
	"strings"
	"testing"

	"pgregory.net/rapid"
)

type c03Case struct {
	S      vScenario `json:"s"`
	Single string    `json:"single,omitempty"` // element for -s ("" = all foods)
}

var c03Modes = []struct {
	name string
	args []string
}{
	{"default", nil},
	{"collapse", []string{"--collapse"}},
	{"collapse-last", []string{"--collapse-last"}},
}

// c03Items: the (path, amount) items the tree is built from.
func c03Items(s vScenario, single string) []vMerged {
	res := vModelResolve(s.Book.Parsed())
	var items []vMerged
	for _, rec := range s.Log.Parsed() {
		for _, m := range vMergeEntries(rec.Entries) {
			if single == "" {
				items = append(items, m)
				continue
			}
			if el, ok := res.Elems[m.Name]; ok {
				if v, has := el[single]; has {
					vv := v.Scale(m.Q.V)
					vv.Mag = vRatMul(v.Mag, m.Q.Mag)
					items = append(items, vMerged{m.Name, vv})
				}
			} else if m.Name == single {
				items = append(items, m) // the element logged directly stands for itself
			}
		}
	}
	return items
}

func c03NoPrefix(items []vMerged) bool {
	names := map[string]bool{}
	for _, it := range items {
		names[it.Name] = true
	}
	for a := range names {
		for b := range names {
			if a != b && strings.HasPrefix(b, a+"/") {
				return false
			}
		}
	}
	return true
}

func c03Shape(tree []vTreeNode) (forkAfterChain, sharedPrefix2 bool) {
	kids := map[string]int{}
	parent := func(p string) string {
		if i := strings.LastIndex(p, "/"); i >= 0 {
			return p[:i]
		}
		return "\x00"
	}
	for _, n := range tree {
		kids[parent(n.Path)]++
	}
	for _, n := range tree {
		if kids[n.Path] >= 2 {
			// fork at n; is there a single-child ancestor chain above it?
			p := parent(n.Path)
			if p != "\x00" && kids[p] == 1 {
				forkAfterChain = true
			}
			if n.Depth >= 1 {
				sharedPrefix2 = true
			}
		}
	}
	return
}

func checkC03(c c03Case, ctx *vCtx) *vFailure {
	items := c03Items(c.S, c.Single)
	tree := vModelTree(items)
	noPrefix := c03NoPrefix(items)
	byPath := map[string]vVal{}
	isLeaf := map[string]bool{}
	for i, n := range tree {
		byPath[n.Path] = n.V
		isLeaf[n.Path] = i+1 >= len(tree) || tree[i+1].Depth <= n.Depth
	}
	fork, shared := c03Shape(tree)
	ctx.NonTrivial(fork || shared)
	if fork {
		ctx.Label("fork-after-chain")
	}
	if !noPrefix {
		ctx.Label("prefix-of-another")
	}
	if c.Single != "" {
		ctx.Label("single-element")
		direct := false
		for _, it := range items {
			if it.Name == c.Single {
				direct = true
			}
		}
		if direct {
			ctx.Label("element-logged-directly")
		}
	}
	grand := vValZero()
	for _, it := range items {
		grand = grand.Add(it.Q)
	}
	f := c.S.Write("c03")
	for _, mode := range c03Modes {
		args := append([]string{"bal"}, mode.args...)
		if c.Single != "" {
			args = append(args, "-s", c.Single)
		}
		r := vRunApp(vInvocation{Args: f.Args(args...)})
		ctx.Run(1)
		what := "bal " + strings.Join(args[1:], " ")
		if r.Failed {
			return vFailf("%s failed on valid input: %s", what, r)
		}
		out := vReadBalance(r.Stdout, c.Single != "")
		// siblings sorted by (first segment of) name, each shown once
		if fl := c03Sorted(what, out.Rows); fl != nil {
			return fl
		}
		if mode.name == "default" {
			if len(out.Rows) != len(tree) {
				return vFailf("%s: %d rows shown, %d expected (every category path exactly once)\n%s", what, len(out.Rows), len(tree), r.Stdout)
			}
			for i, n := range tree {
				g := out.Rows[i]
				if g.Path != n.Path || g.Depth != n.Depth || g.Name != n.Name {
					return vFailf("%s: row %d is %q at depth %d, expected %q at depth %d\n%s", what, i, g.Path, g.Depth, n.Path, n.Depth, r.Stdout)
				}
				if !vValClose(g.Val, n.V, 2) {
					return vFailf("%s: path %q shows %s, expected %s (sum of all logged quantities at or below it)\n%s", what, n.Path, g.Val, n.V, r.Stdout)
				}
			}
		} else {
			for _, g := range out.Rows {
				v, ok := byPath[g.Path]
				if !ok {
					return vFailf("%s: row %q (full path %q) is not a category path of the log\n%s", what, g.Name, g.Path, r.Stdout)
				}
				if noPrefix && !vValClose(g.Val, v, 2) {
					return vFailf("%s: path %q shows %s, expected %s\n%s", what, g.Path, g.Val, v, r.Stdout)
				}
			}
		}
		if noPrefix {
			// same leaf paths with the same amounts in every mode
			gotLeaves := map[string]string{}
			for i, g := range out.Rows {
				if i+1 >= len(out.Rows) || out.Rows[i+1].Depth <= g.Depth {
					if _, dup := gotLeaves[g.Path]; dup {
						return vFailf("%s: leaf %q shown twice\n%s", what, g.Path, r.Stdout)
					}
					gotLeaves[g.Path] = g.Val
				}
			}
			nleaves := 0
			for p, leaf := range isLeaf {
				if !leaf {
					continue
				}
				nleaves++
				gv, ok := gotLeaves[p]
				if !ok {
					return vFailf("%s: leaf path %q (amount %s) is missing — a branch was dropped\n%s", what, p, byPath[p], r.Stdout)
				}
				if !vValClose(gv, byPath[p], 2) {
					return vFailf("%s: leaf %q shows %s, expected %s\n%s", what, p, gv, byPath[p], r.Stdout)
				}
			}
			if len(gotLeaves) != nleaves {
				return vFailf("%s: %d leaves shown, %d expected\n%s", what, len(gotLeaves), nleaves, r.Stdout)
			}
		}
		// conservation at the top level, in every mode and also when a food is a path prefix of another:
		// the top-level rows add up to everything that was logged
		{
			sum := new(big.Rat)
			n := 0
			for _, g := range out.Rows {
				if g.Depth == 0 {
					sum.Add(sum, vRat(g.Val))
					n++
				}
			}
			tol := vRatMul(big.NewRat(int64(n)+1, 200), big.NewRat(1, 1))
			tol.Add(tol, vRatMul(vRelSlack(grand.N), vRatAdd(big.NewRat(1, 1), grand.Mag)))
			if c.S.Exact {
				tol = new(big.Rat)
			}
			if vRatAbs(vRatSub(sum, grand.V)).Cmp(tol) > 0 {
				return vFailf("%s: the top-level rows add up to %s, but the logged quantities add up to %s\n%s", what, sum.FloatString(2), grand.V.FloatString(2), r.Stdout)
			}
		}
		if c.Single != "" {
			if out.TotalOf != c.Single {
				return vFailf("%s: grand total row names %q", what, out.TotalOf)
			}
			sig := ""
			if !vValClose(out.Total, grand, 2) {
				return vFailSig(sig, "%s: grand total %s, expected %s (sum of quantity x resolved amount over all logged foods)\n%s", what, out.Total, grand, r.Stdout)
			}
			// grand total = sum of the top-level rows as displayed
			sum := new(big.Rat)
			n := 0
			for _, g := range out.Rows {
				if g.Depth == 0 {
					sum.Add(sum, vRat(g.Val))
					n++
				}
			}
			tol := vRatMul(big.NewRat(int64(n)+1, 200), big.NewRat(1, 1))
			tol.Add(tol, vRatMul(vRelSlack(grand.N), vRatAdd(big.NewRat(1, 1), grand.Mag)))
			if c.S.Exact {
				tol = new(big.Rat)
			}
			if vRatAbs(vRatSub(sum, vRat(out.Total))).Cmp(tol) > 0 {
				return vFailf("%s: grand total %s differs from the sum of the top-level rows %s\n%s", what, out.Total, sum.FloatString(2), r.Stdout)
			}
		}
	}
	return nil
}

func c03Sorted(what string, rows []vBalRow) *vFailure {
	last := map[string]string{} // parent path -> first segment of previous child
	for _, g := range rows {
		par := "\x00"
		if g.Depth > 0 {
			par = strings.TrimSuffix(g.Path, "/"+g.Name)
		}
		first := strings.SplitN(g.Name, "/", 2)[0]
		if prev, ok := last[par]; ok && !(prev < first) {
			return vFailf("%s: siblings not sorted / repeated: %q shown after %q", what, g.Name, prev)
		}
		last[par] = first
	}
	return nil
}

func genC03(t *rapid.T) c03Case {
	// a small segment alphabet and up to five segments: shared prefixes, chains and forks are the norm
	s := vGenScenario(t, vScenOpts{Paths: true, MinDays: 1, MaxDays: 4, MaxEntries: 8, NUnknown: 6, MaxRecipes: 9,
		PathSegs: []string{"a", "b", "c d", "a", "b", "50%", "c%d", ".", "..", "a-x", "a b", "c"}, PathMax: 5})
	c := c03Case{S: s}
	switch rapid.IntRange(0, 9).Draw(t, "single") {
	case 0, 1, 2, 3, 4:
	case 5:
		c.Single = "nosuchelement"
	case 6:
		// an element name that is itself a recipe of the book (and possibly logged): nothing resolves to it
		if len(s.Recipes) > 0 {
			c.Single = s.Recipes[rapid.IntRange(0, len(s.Recipes)-1).Draw(t, "xr")]
		} else {
			c.Single = "nosuchelement"
		}
	default:
		c.Single = s.Basics[rapid.IntRange(0, len(s.Basics)-1).Draw(t, "x")]
	}
	return c
}

// ---------------------------------------------------------------------------
// exhaustive small scope

func c03AllPaths(alpha []string, depth int) []string {
	var out []string
	var rec func(prefix []string)
	rec = func(prefix []string) {
		if len(prefix) > 0 {
			out = append(out, strings.Join(prefix, "/"))
		}
		if len(prefix) == depth {
			return
		}
		for _, a := range alpha {
			rec(append(append([]string{}, prefix...), a))
		}
	}
	rec(nil)
	return out
}

func c03Subsets(n, maxSize int) [][]int {
	var out [][]int
	var rec func(start int, cur []int)
	rec = func(start int, cur []int) {
		out = append(out, append([]int{}, cur...))
		if len(cur) == maxSize {
			return
		}
		for i := start; i < n; i++ {
			rec(i+1, append(cur, i))
		}
	}
	rec(0, nil)
	return out
}

type c03EnumSpace struct {
	paths []string
	sets  [][]int
}

func c03Enum(alpha []string, depth, maxSize int) c03EnumSpace {
	p := c03AllPaths(alpha, depth)
	return c03EnumSpace{p, c03Subsets(len(p), maxSize)}
}

// case i: set i/2, variant i%2 (0 = all foods, 1 = single element X with a book)
func (e c03EnumSpace) at(i int) c03Case {
	set := e.sets[i/2]
	single := i%2 == 1
	plain := vLayout{Indent: "  ", Sep: ": ", EOL: "\n"}
	qty := []string{"1", "2", "4", "8"}
	var s vScenario
	s.Exact = true
	day1 := vRec{Head: "2021/01/01", HL: vLayout{EOL: "\n"}}
	day2 := vRec{Head: "2021/01/02", HL: vLayout{EOL: "\n"}}
	for k, pi := range set {
		ln := vLine{Kind: vkEntry, Name: e.paths[pi], Num: qty[k], L: plain}
		if k%2 == 0 {
			day1.Lines = append(day1.Lines, ln)
		} else {
			day2.Lines = append(day2.Lines, ln)
		}
	}
	c := c03Case{}
	if single {
		c.Single = "X"
		// each logged food is a recipe with a distinct amount of X (3, 5, 7, 9) and some Y
		amt := []string{"3", "5", "7", "9"}
		for k, pi := range set {
			s.Book.Recs = append(s.Book.Recs, vRec{Head: e.paths[pi], HL: vLayout{EOL: "\n"}, Lines: []vLine{
				{Kind: vkEntry, Name: "X", Num: amt[k], L: plain}, {Kind: vkEntry, Name: "Y", Num: "1", L: plain}}})
			s.Recipes = append(s.Recipes, e.paths[pi])
		}
		// X logged directly as well
		day2.Lines = append(day2.Lines, vLine{Kind: vkEntry, Name: "X", Num: "16", L: plain})
		s.Basics = []string{"X", "Y"}
	}
	s.Log = vDoc{Recs: []vRec{day1, day2}}
	s.Days = []int{0, 1}
	c.S = s
	return c
}

var c03EnumCache *c03EnumSpace

func init() {
	vRegister("C03", "c03.random", checkC03)
	vRegister("C03", "c03.enum", checkC03)
}

func TestVerifC03Enum(t *testing.T) {
	var e c03EnumSpace
	var scope string
	if vThorough() {
		e = c03Enum([]string{"a", "b", "c"}, 3, 3)
		scope = "all sets of <=3 distinct paths over {a,b,c}, depth <=3"
	} else {
		e = c03Enum([]string{"a", "b"}, 3, 4)
		scope = "all sets of <=4 distinct paths over {a,b}, depth <=3"
	}
	vEnum(t, "C03", "c03.enum",
		"every set of distinct category paths within the bound, quantities 1,2,4,8 spread over two days, x {all foods, -s X with a book giving each food a distinct amount of X and X also logged directly} x {default, --collapse, --collapse-last}; non-trivial = a single-child chain that later forks or two foods sharing a prefix of depth >= 2",
		scope+" x {all foods, single element}", len(e.sets)*2, e.at, checkC03)
}

func TestVerifC03Random(t *testing.T) {
	vRapid(t, "C03", "c03.random",
		"random logs of category-path foods (1-4 segments over multi-letter segments incl. inner blanks, negative amounts, several days, foods in / not in the book) x {all foods, -s absent element, -s basic element (possibly logged directly)} x 3 display modes; oracle = prefix-sum tree model over exact rationals",
		vBudget(3200, 80000), genC03, checkC03)
}

var _ = fmt.Sprint
