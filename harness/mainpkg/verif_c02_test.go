//go:build go1.21

package main

// Scenario generator shared by the report-level checks, and
// C02 — register shows each day's foods, ingredients and signed totals exactly.

import (
	"fmt"
	"math/big"
	"sort"
	"strings"
	"testing"

	"pgregory.net/rapid"
)

// ---------------------------------------------------------------------------
// scenario = book + log

type vScenario struct {
	Book    vDoc     `json:"book"`
	Log     vDoc     `json:"log"`
	Days    []int    `json:"days"`
	Exact   bool     `json:"exact"`
	Recipes []string `json:"recipes"`
	Basics  []string `json:"basics"`
	Unknown []string `json:"unknown"`
}

type vScenOpts struct {
	Paths      bool // names are category paths
	MaxDepth   int
	MaxRecipes int
	MinDays    int
	MaxDays    int
	MaxEntries int
	Exact      *bool
	Sorted     bool
	Layout     *vLayoutOpts
	NUnknown   int
	Window     int
	Notes      bool
	DateLayout string
	PathSegs   []string
	PathMax    int
}

func vGenScenario(t *rapid.T, o vScenOpts) vScenario {
	var s vScenario
	if o.Exact != nil {
		s.Exact = *o.Exact
	} else {
		s.Exact = rapid.IntRange(0, 2).Draw(t, "exact") > 0
	}
	lo := vLayoutOpts{Plain: true}
	if o.Layout != nil {
		lo = *o.Layout
	} else if rapid.IntRange(0, 3).Draw(t, "varlayout") == 0 {
		lo = vLayoutOpts{EOL: []string{"", "\r\n", "mixed"}[rapid.IntRange(0, 2).Draw(t, "eol")]}
	}
	maxd := o.MaxDepth
	if maxd == 0 {
		maxd = 3
	}
	maxr := o.MaxRecipes
	if maxr == 0 {
		maxr = 7
	}
	book, info := vGenBook(t, vBookOpts{MaxRecipes: maxr, MaxDepth: maxd, Wild: false, Exact: s.Exact, Paths: o.Paths, Layout: lo, Notes: o.Notes, PathSegs: o.PathSegs, PathMax: o.PathMax}, "book")
	s.Book, s.Recipes, s.Basics = book, info.Recipes, info.Basics
	nu := o.NUnknown
	if nu == 0 {
		nu = 3
	}
	k := rapid.IntRange(0, nu).Draw(t, "nunknown")
	taken := map[string]bool{}
	for _, n := range s.Recipes {
		taken[n] = true
	}
	for _, n := range s.Basics {
		taken[n] = true
	}
	for i := 0; i < k; i++ {
		var nm string
		if o.Paths {
			usegs := []string{"a", "b", "c", "dd", "e f", "u"}
			if len(o.PathSegs) > 0 {
				usegs = o.PathSegs
			}
			umax := 4
			if o.PathMax > 0 {
				umax = o.PathMax
			}
			nm = vGenPath(t, usegs, umax, "unk")
			// one unknown food in three is a text-sibling of the category of another food: "dairy/milkshake" next to
			// "dairy/milk/whole" (the category text of the other name, continued without a separator)
			if rapid.IntRange(0, 2).Draw(t, "unk.sibling") == 0 {
				var deep []string
				for n := range taken {
					if strings.Count(n, "/") >= 2 {
						deep = append(deep, n)
					}
				}
				sort.Strings(deep)
				if len(deep) > 0 {
					src := deep[rapid.IntRange(0, len(deep)-1).Draw(t, "unk.siblingof")]
					nm = src[:strings.LastIndex(src, "/")] + []string{"x", "xy", " b", "shake"}[rapid.IntRange(0, 3).Draw(t, "unk.suffix")]
				}
			}
		} else {
			nm = vGenName(t, false, "unk")
		}
		for taken[nm] {
			nm += "u"
		}
		taken[nm] = true
		s.Unknown = append(s.Unknown, nm)
	}
	foods := append([]string{}, s.Recipes...)
	foods = append(foods, s.Recipes...) // recipes twice as likely
	foods = append(foods, s.Basics...)
	foods = append(foods, s.Unknown...)
	if len(foods) == 0 {
		foods = []string{"water"}
	}
	maxe := o.MaxEntries
	if maxe == 0 {
		maxe = 6
	}
	maxdays := o.MaxDays
	if maxdays == 0 {
		maxdays = 5
	}
	s.Log, s.Days = vGenLog(t, vLogOpts{MinDays: o.MinDays, MaxDays: maxdays, MaxEntries: maxe, Foods: foods, Exact: s.Exact,
		Sorted: o.Sorted, Layout: lo, Window: o.Window, Notes: o.Notes, DateLayout: o.DateLayout}, "log")
	vAddRelatedEntries(t, &s)
	return s
}

// vAddRelatedEntries: one scenario in six gets a few log entries whose *relation to each other* matters rather than
// their own shape: (c) a food with long element names that coincide once shortened, (a) two foods whose name and quantity spell the same text when glued together in either order
// ("gl~b1: 2" / "gl~b: 12", "gl~c: 15" / "5gl~c: 1"), (b) in decimal mode two large contributions to one element that
// cancel up to a few cents (1234567890.75 and -1234567890). The recipes they need are appended to the book.
func vAddRelatedEntries(t *rapid.T, s *vScenario) {
	if len(s.Log.Recs) == 0 || len(s.Basics) == 0 || rapid.IntRange(0, 5).Draw(t, "related") != 0 {
		return
	}
	plain := vLayout{Indent: "  ", Sep: ": ", EOL: "\n"}
	e := s.Basics[rapid.IntRange(0, len(s.Basics)-1).Draw(t, "related.e")]
	e2 := s.Basics[rapid.IntRange(0, len(s.Basics)-1).Draw(t, "related.e2")]
	addRecipe := func(name string, entries ...[2]string) {
		r := vRec{Head: name, HL: vLayout{EOL: "\n"}}
		for _, en := range entries {
			r.Lines = append(r.Lines, vLine{Kind: vkEntry, Name: en[0], Num: en[1], L: plain})
		}
		s.Book.Recs = append(s.Book.Recs, r)
		s.Book.NoFinalNL = false
		s.Recipes = append(s.Recipes, name)
	}
	logIt := func(name, qty string, label string) {
		di := rapid.IntRange(0, len(s.Log.Recs)-1).Draw(t, label)
		s.Log.Recs[di].Lines = append(s.Log.Recs[di].Lines, vLine{Kind: vkEntry, Name: name, Num: qty, L: plain})
		s.Log.NoFinalNL = false
	}
	switch kind := rapid.IntRange(0, 3).Draw(t, "related.kind"); {
	case kind == 3: // two long element names that look alike once shortened in the middle (same first and last ten runes)
		mid := rapid.IntRange(1, 8).Draw(t, "related.mid")
		addRecipe("lt~food", [2]string{fmt.Sprintf("supplement/omega-%d/capsule/1000mg~", mid), "2"}, [2]string{fmt.Sprintf("supplement/omega-%d/capsule/1000mg~", mid+1), "3"},
			[2]string{fmt.Sprintf("supplement/omega-%d%d/capsule/1000mg~", mid, mid), "1"})
		logIt("lt~food", "1", "related.d1")
	case kind == 0: // name then quantity glued: "gl~b1"+"2" = "gl~b"+"12"
		addRecipe("gl~b", [2]string{e, "2"})
		addRecipe("gl~b1", [2]string{e, "3"}, [2]string{e2, "1"})
		logIt("gl~b1", "2", "related.d1")
		logIt("gl~b", "12", "related.d2")
	case kind == 1: // quantity then name glued: "15"+"gl~c" = "1"+"5gl~c"
		addRecipe("gl~c", [2]string{e, "2"})
		addRecipe("5gl~c", [2]string{e, "3"}, [2]string{e2, "1"})
		logIt("gl~c", "15", "related.d1")
		logIt("5gl~c", "1", "related.d2")
	case s.Exact:
		addRecipe("nc~pos", [2]string{e, "1"})
		addRecipe("nc~neg", [2]string{e, "-1"})
		d := "related.d"
		di := rapid.IntRange(0, len(s.Log.Recs)-1).Draw(t, d)
		for _, en := range [][2]string{{"nc~pos", "8"}, {"nc~neg", "8"}} { // exact cancellation
			s.Log.Recs[di].Lines = append(s.Log.Recs[di].Lines, vLine{Kind: vkEntry, Name: en[0], Num: en[1], L: plain})
		}
		s.Log.NoFinalNL = false
	default:
		addRecipe("nc~pos", [2]string{e, "1"})
		addRecipe("nc~neg", [2]string{e, "-1"})
		big := []string{"5000000", "123456789", "1234567890", "99999999999", "25000000000000", "999999999999999"}[rapid.IntRange(0, 5).Draw(t, "related.big")]
		cents := []string{".75", ".5", ".25", ".01", ".99"}[rapid.IntRange(0, 4).Draw(t, "related.cents")]
		if len(big) >= 14 {
			cents = []string{".75", ".5", ".25"}[rapid.IntRange(0, 2).Draw(t, "related.cents2")] // what a float64 of that size can still hold
		}
		di := rapid.IntRange(0, len(s.Log.Recs)-1).Draw(t, "related.d")
		for _, en := range [][2]string{{"nc~pos", big + cents}, {"nc~neg", big}} {
			s.Log.Recs[di].Lines = append(s.Log.Recs[di].Lines, vLine{Kind: vkEntry, Name: en[0], Num: en[1], L: plain})
		}
		// the same on the level of foods: a food taken back almost completely on another day, and two foods of one
		// category that nearly cancel (the category keeps the few cents)
		logIt("ncf~/a", big+cents, "related.f1")
		logIt("ncf~/a", "-"+big, "related.f2")
		logIt("ncf~/b/x", big+cents, "related.f3")
		logIt("ncf~/b/y", "-"+big, "related.f4")
		s.Log.NoFinalNL = false
	}
}

// Rename replaces a name everywhere it occurs (headings, entries, name lists).
func (s *vScenario) Rename(old, new string) {
	for _, d := range []*vDoc{&s.Book, &s.Log} {
		for ri := range d.Recs {
			if d.Recs[ri].Head == old {
				d.Recs[ri].Head = new
			}
			for li := range d.Recs[ri].Lines {
				if d.Recs[ri].Lines[li].Kind == vkEntry && d.Recs[ri].Lines[li].Name == old {
					d.Recs[ri].Lines[li].Name = new
				}
			}
		}
	}
	for _, l := range []*[]string{&s.Recipes, &s.Basics, &s.Unknown} {
		for i := range *l {
			if (*l)[i] == old {
				(*l)[i] = new
			}
		}
	}
}

type vScenFiles struct{ Book, Log string }

func (s vScenario) Write(prefix string) vScenFiles {
	return vScenFiles{vWriteFile(prefix+"-book.yaml", s.Book.Render()), vWriteFile(prefix+"-log.yaml", s.Log.Render())}
}

const vToday = "2021/01/10"

func (f vScenFiles) Args(extra ...string) []string {
	return append([]string{"--today", vToday, "-d", f.Book, "-l", f.Log}, extra...)
}

// vModelDays: the day model of every record of the log.
func (s vScenario) ModelDays() ([]vDayModel, vResolved) {
	res := vModelResolve(s.Book.Parsed())
	var out []vDayModel
	for _, r := range s.Log.Parsed() {
		out = append(out, vModelDay(r, res))
	}
	return out, res
}

// ---------------------------------------------------------------------------
// comparison of a register reading with the model

type vRegExpect struct {
	Foods  bool // food/ingredient rows expected
	Totals bool // totals expected
}

func vCompareRegister(what string, got []vRegDay, want []vDayModel, ex vRegExpect) *vFailure {
	if len(got) != len(want) {
		return vFailf("%s: %d day blocks shown, %d expected", what, len(got), len(want))
	}
	for i, w := range want {
		g := got[i]
		if g.Date != w.Head {
			return vFailf("%s: block %d is dated %q, expected %q (file order)", what, i, g.Date, w.Head)
		}
		if ex.Foods {
			if len(g.Foods) != len(w.Foods) {
				return vFailf("%s: day %d (%s): %d food rows, expected %d (each distinct food once)", what, i, w.Head, len(g.Foods), len(w.Foods))
			}
			for k, wf := range w.Foods {
				gf := g.Foods[k]
				if gf.Name != wf.Name {
					return vFailf("%s: day %d food %d is %q, expected %q (first-appearance order)", what, i, k, gf.Name, wf.Name)
				}
				if !vValClose(gf.Val, wf.Q, 2) {
					return vFailf("%s: day %d food %q shows %s, expected %s", what, i, wf.Name, gf.Val, wf.Q)
				}
				if len(gf.Ingrs) != len(wf.Ingrs) {
					return vFailf("%s: day %d food %q: %d ingredient rows, expected %d", what, i, wf.Name, len(gf.Ingrs), len(wf.Ingrs))
				}
				for j, wi := range wf.Ingrs {
					gi := gf.Ingrs[j]
					if gi.Name != wi.Name || !vValClose(gi.Val, wi.V, 2) {
						return vFailf("%s: day %d food %q ingredient %d: got (%q, %s), expected (%q, %s)", what, i, wf.Name, j, gi.Name, gi.Val, wi.Name, wi.V)
					}
				}
			}
		} else if len(g.Foods) != 0 {
			return vFailf("%s: day %d shows food rows although none are expected", what, i)
		}
		if ex.Totals {
			if len(g.Totals) != len(w.Totals) {
				return vFailf("%s: day %d (%s): %d total rows, expected %d", what, i, w.Head, len(g.Totals), len(w.Totals))
			}
			for k, wt := range w.Totals {
				gt := g.Totals[k]
				if gt.Name != wt.Name {
					return vFailf("%s: day %d total row %d is %q, expected %q (sorted by name)", what, i, k, gt.Name, wt.Name)
				}
				if !vValClose(gt.Pos, wt.Pos, 2) || !vValClose(gt.Neg, wt.Neg, 2) || !vValClose(gt.Sum, wt.Sum, 2) {
					return vFailf("%s: day %d total %q: got %s %s =%s, expected %s %s =%s", what, i, wt.Name, gt.Pos, gt.Neg, gt.Sum, wt.Pos, wt.Neg, wt.Sum)
				}
			}
		} else if len(g.Totals) != 0 || g.TotalHeader {
			return vFailf("%s: day %d shows totals although none are expected", what, i)
		}
	}
	return nil
}

// ---------------------------------------------------------------------------
// C02

type c02Case struct {
	S      vScenario `json:"s"`
	Bin    bool      `json:"bin"`              // also through the real binary
	Layout string    `json:"layout,omitempty"` // date format of the log ("" = default), given with --date-format
}

func c02NonTrivial(days []vDayModel, s vScenario) (bool, []string) {
	isRecipe := map[string]bool{}
	for _, r := range s.Recipes {
		isRecipe[r] = true
	}
	var labels []string
	nt := false
	for di, d := range days {
		raw := s.Log.Parsed()[di].Entries
		repeated := len(raw) != len(d.Foods)
		hasRecipe := false
		direct := map[string]bool{}
		fromRecipe := map[string]bool{}
		posFrom, negFrom := map[string]map[string]bool{}, map[string]map[string]bool{}
		for _, f := range d.Foods {
			if isRecipe[f.Name] {
				hasRecipe = true
			}
			for _, in := range f.Ingrs {
				if isRecipe[f.Name] {
					fromRecipe[in.Name] = true
				} else {
					direct[in.Name] = true
				}
				m := posFrom
				if in.V.V.Sign() < 0 {
					m = negFrom
				}
				if m[in.Name] == nil {
					m[in.Name] = map[string]bool{}
				}
				m[in.Name][f.Name] = true
			}
		}
		mixed, both := false, false
		for el := range posFrom {
			if len(negFrom[el]) > 0 {
				mixed = true
			}
		}
		for el := range direct {
			if fromRecipe[el] {
				both = true
			}
		}
		if repeated {
			labels = append(labels, "repeated-food")
		}
		if mixed {
			labels = append(labels, "both-signs")
		}
		if both {
			labels = append(labels, "direct+recipe")
		}
		if len(d.Foods) == 0 {
			labels = append(labels, "empty-day")
		}
		if len(d.Foods) >= 2 && hasRecipe && (mixed || repeated || both) {
			nt = true
		}
	}
	return nt, labels
}

func checkC02(c c02Case, ctx *vCtx) *vFailure {
	days, _ := c.S.ModelDays()
	nt, labels := c02NonTrivial(days, c.S)
	ctx.NonTrivial(nt)
	for _, l := range labels {
		ctx.Label(l)
	}
	if c.S.Exact {
		ctx.Label("exact-mode")
	} else {
		ctx.Label("decimal-mode")
	}
	f := c.S.Write("c02")
	fmtArgs := []string{"--no-color"}
	if c.Layout != "" {
		fmtArgs = append(fmtArgs, "--date-format", c.Layout)
		ctx.Label("date-format:" + c.Layout)
	}
	argsFor := func(extra ...string) []string {
		return append([]string{"--today", vFmtDay(9, c.Layout), "-d", f.Book, "-l", f.Log}, append(append([]string{}, fmtArgs...), extra...)...)
	}
	type variant struct {
		name string
		args []string
		la   bool
		ex   vRegExpect
	}
	vs := []variant{
		{"reg", []string{"reg"}, false, vRegExpect{true, true}},
		{"reg left-aligned", []string{"reg", "--internal-template-name", "left-aligned"}, true, vRegExpect{true, true}},
		{"reg old reporter", []string{"reg", "--use-old-reg-reporter"}, false, vRegExpect{true, true}},
		{"reg --totals-only", []string{"reg", "--totals-only"}, false, vRegExpect{false, true}},
		{"reg --no-totals", []string{"reg", "--no-totals"}, false, vRegExpect{true, false}},
		{"reg old reporter --totals-only", []string{"reg", "--use-old-reg-reporter", "--totals-only"}, false, vRegExpect{false, true}},
		{"reg old reporter --no-totals", []string{"reg", "--use-old-reg-reporter", "--no-totals"}, false, vRegExpect{true, false}},
		{"reg left-aligned --totals-only", []string{"reg", "--internal-template-name", "left-aligned", "--totals-only"}, true, vRegExpect{false, true}},
	}
	for _, v := range vs {
		inv := vInvocation{Args: argsFor(v.args...)}
		run := vRunApp
		if c.Bin {
			run = func(i vInvocation) vRun { return vRunBin(i, 20e9) }
		}
		r := run(inv)
		ctx.Run(1)
		if r.Failed {
			return vFailf("%s failed on valid input: %s", v.name, r)
		}
		var got []vRegDay
		if v.la {
			got = vReadRegisterLA(r.Stdout)
		} else {
			got = vReadRegister(r.Stdout)
		}
		if fl := vCompareRegister(v.name, got, days, v.ex); fl != nil {
			return fl
		}
	}
	// "every selected day in file order": one calendar day selected by explicit dates and by the keywords
	if len(c.S.Days) > 0 && len(c.S.Days) == len(days) {
		D := c.S.Days[len(c.S.Days)/2]
		var sel []vDayModel
		for i, d := range days {
			if c.S.Days[i] == D {
				sel = append(sel, d)
			}
		}
		dtxt := vFmtDay(D, c.Layout)
		forms := []struct {
			name  string
			today int
			args  []string
		}{
			{"reg -b D -e D", 9, []string{"reg", "-b", dtxt, "-e", dtxt}},
			{"-b D reg -e D", 9, []string{"-b", dtxt, "reg", "-e", dtxt}},
			{"reg -b today -e today", D, []string{"reg", "-b", "today", "-e", "today"}},
			{"-b yesterday -e yesterday reg", D + 1, []string{"-b", "yesterday", "-e", "yesterday", "reg"}},
			{"reg -b last7 -e last7", D + 7, []string{"reg", "-b", "last7", "-e", "last7"}},
		}
		for _, fm := range forms {
			var a []string
			for _, x := range fm.args { // global options go before the command word
				if x == "reg" {
					a = append(a, "-d", f.Book, "-l", f.Log)
					a = append(a, fmtArgs...)
				}
				a = append(a, x)
			}
			a = append([]string{"--today", vFmtDay(fm.today, c.Layout)}, a...)
			r := vRunApp(vInvocation{Args: a})
			ctx.Run(1)
			if r.Failed {
				return vFailf("%s failed on valid input: %s", fm.name, r)
			}
			if fl := vCompareRegister(fmt.Sprintf("%s (D = %s, today = %s)", fm.name, dtxt, vFmtDay(fm.today, c.Layout)), vReadRegister(r.Stdout), sel, vRegExpect{true, true}); fl != nil {
				return fl
			}
		}
		ctx.Label("one-day-selected")
	}
	// single-element register rows against the model: reg -s X (one row per day that has X), reg -s X -g (per book food)
	if len(c.S.Basics) > 0 {
		x := c.S.Basics[0]
		res := vModelResolve(c.S.Book.Parsed())
		type sx struct {
			date     string
			pos, neg vVal
		}
		var wantRows []sx
		byFood := map[string]vVal{}
		for di, d := range days {
			_ = di
			row := sx{date: d.Head, pos: vValZero(), neg: vValZero()}
			has := false
			for _, fd := range d.Foods {
				_, isRecipe := res.Elems[fd.Name]
				for _, in := range fd.Ingrs {
					if in.Name != x {
						continue
					}
					has = true
					if in.V.V.Sign() < 0 {
						row.neg = row.neg.Add(in.V)
					} else {
						row.pos = row.pos.Add(in.V)
					}
					if isRecipe {
						cur, ok := byFood[fd.Name]
						if !ok {
							cur = vValZero()
						}
						byFood[fd.Name] = cur.Add(in.V)
					}
				}
			}
			if has {
				wantRows = append(wantRows, row)
			}
		}
		r := vRunApp(vInvocation{Args: argsFor("reg", "-s", x)})
		ctx.Run(1)
		if r.Failed {
			return vFailf("reg -s %q failed: %s", x, r)
		}
		got := vReadSingle(r.Stdout, x)
		if len(got) != len(wantRows) {
			return vFailf("reg -s %q shows %d rows, expected %d (one per day that has the element)\n%s", x, len(got), len(wantRows), vTrunc(r.Stdout, 800))
		}
		for i, w := range wantRows {
			g := got[i]
			negShown := vVal{V: new(big.Rat).Neg(w.neg.V), Mag: w.neg.Mag, N: w.neg.N}
			if g.Date != w.date || !vValClose(g.Pos, w.pos, 2) || !vValClose(g.Neg, negShown, 2) || !vValClose(g.Sum, w.pos.Add(w.neg), 2) {
				return vFailf("reg -s %q row %d: got %v, expected (%s, %s, %s, =%s)", x, i, g, w.date, w.pos, negShown, w.pos.Add(w.neg))
			}
		}
		rg := vRunApp(vInvocation{Args: argsFor("reg", "-s", x, "-g")})
		ctx.Run(1)
		if rg.Failed {
			return vFailf("reg -s %q -g failed: %s", x, rg)
		}
		gotG := vReadValName(rg.Stdout)
		names := vSortedKeys(byFood)
		if len(gotG) != len(names) {
			return vFailf("reg -s %q -g shows %d foods, expected %d %q\n%s", x, len(gotG), len(names), names, vTrunc(rg.Stdout, 800))
		}
		for i, nm := range names {
			if gotG[i].Name != nm || !vValClose(gotG[i].Val, byFood[nm], 2) {
				return vFailf("reg -s %q -g row %d: got (%s, %q), expected (%s, %q)", x, i, gotG[i].Val, gotG[i].Name, byFood[nm], nm)
			}
		}
	}
	// summary DATE for each distinct date of the log
	seen := map[string]bool{}
	for _, d := range days {
		if seen[d.Head] {
			continue
		}
		seen[d.Head] = true
		r := vRunApp(vInvocation{Args: argsFor("summary", d.Head)})
		ctx.Run(1)
		if r.Failed {
			return vFailf("summary %s failed: %s", d.Head, r)
		}
		got := vReadSummary(r.Stdout)
		var want []vDayModel
		for _, dd := range days {
			if dd.Head == d.Head {
				want = append(want, dd)
			}
		}
		if len(got) != len(want) {
			return vFailf("summary %s: %d blocks shown, %d expected", d.Head, len(got), len(want))
		}
		for i, w := range want {
			g := got[i]
			if g.Date != w.Head {
				return vFailf("summary %s: block dated %q", d.Head, g.Date)
			}
			if len(g.Totals) != len(w.Totals) || len(g.Foods) != len(w.Foods) {
				return vFailf("summary %s block %d: %d totals / %d foods shown, expected %d / %d", d.Head, i, len(g.Totals), len(g.Foods), len(w.Totals), len(w.Foods))
			}
			for k, wt := range w.Totals {
				if g.Totals[k].Name != wt.Name || !vValClose(g.Totals[k].Val, wt.Pos, 2) {
					return vFailf("summary %s block %d total %d: got (%q, %s), expected (%q, %s)", d.Head, i, k, g.Totals[k].Name, g.Totals[k].Val, wt.Name, wt.Pos)
				}
			}
			for k, wf := range w.Foods {
				if g.Foods[k].Name != wf.Name || !vValClose(g.Foods[k].Val, wf.Q, 2) {
					return vFailf("summary %s block %d food %d: got (%q, %s), expected (%q, %s)", d.Head, i, k, g.Foods[k].Name, g.Foods[k].Val, wf.Name, wf.Q)
				}
			}
		}
	}
	return nil
}

func genC02(t *rapid.T) c02Case {
	layout := []string{"", "", "2006-01-02", "02.01.2006", "2 Jan 2006"}[rapid.IntRange(0, 4).Draw(t, "layout")]
	s := vGenScenario(t, vScenOpts{MinDays: 1, MaxDays: 5, DateLayout: layout})
	if len(s.Log.Recs) > 0 && rapid.IntRange(0, 4).Draw(t, "noteheavy") == 0 {
		// a day with a food mentioned twice and at least as many notes as entries (notes are no part of what is merged)
		r := &s.Log.Recs[rapid.IntRange(0, len(s.Log.Recs)-1).Draw(t, "noteheavyday")]
		var first *vLine
		for i := range r.Lines {
			if r.Lines[i].Kind == vkEntry {
				first = &r.Lines[i]
				break
			}
		}
		if first != nil {
			again := *first
			again.Num = []string{"1", "2", "0.5"}[rapid.IntRange(0, 2).Draw(t, "noteheavynum")]
			r.Lines = append(r.Lines, again)
			n := 0
			for _, l := range r.Lines {
				if l.Kind == vkEntry {
					n++
				}
			}
			for k := 0; k < n+rapid.IntRange(0, 2).Draw(t, "noteheavyextra"); k++ {
				at := rapid.IntRange(0, len(r.Lines)).Draw(t, "noteheavyat")
				note := vLine{Kind: vkTNote, Text: fmt.Sprintf("remark %d", k), L: vLayout{Indent: "  ", EOL: "\n"}}
				r.Lines = append(r.Lines[:at], append([]vLine{note}, r.Lines[at:]...)...)
			}
			s.Log.NoFinalNL = false
		}
	}
	return c02Case{S: s, Bin: rapid.IntRange(0, 39).Draw(t, "bin") == 0, Layout: layout}
}

func init() { vRegister("C02", "c02.random", checkC02) }

func TestVerifC02Random(t *testing.T) {
	vRapid(t, "C02", "c02.random",
		"random books (depth <=3, tame names, exact or decimal numeric mode) and logs (1-5 days, 0-6 entries, repeated foods, negative/zero quantities, recipes, basic elements logged directly, unknown foods); reg in 3 reporter variants, reg -s X, reg -s X -g and summary per date read back and compared with the rational day model; 1/40 through the real binary; non-trivial = a day with >=2 foods incl. a recipe and (an element with both signs from different foods, or a repeated food, or an element both logged directly and via a recipe)",
		vBudget(4800, 96000), genC02, checkC02)
}

var _ = fmt.Sprint
