//go:build go1.21

package main

// C04 — well-formed files parse to exactly their records, entries and values.

import (
	"fmt"
	"io"
	"math"
	"os"
	"path/filepath"
	"sort"
	"strings"
	"syscall"
	"testing"
	"time"

	shared "github.com/aquilax/hranoprovod-cli/v3"
	"github.com/aquilax/hranoprovod-cli/v3/parser"
	"pgregory.net/rapid"
)

type c04Case struct {
	Doc   vDoc `json:"doc"`
	Alt   vDoc `json:"alt"` // same AST, second independent layout draw
	CLI   bool `json:"cli"` // also go through csv database / csv log / print
	IsLog bool `json:"islog"`
}

type vGotRec struct {
	Head   string
	Names  []string
	Values []float64
	Notes  []vPNote
}

// vParseAll collects the callback sequence of the real callback parser.
func vParseAll(text string) (recs []vGotRec, errs []string, ret error) {
	return vParseAllReader(strings.NewReader(text))
}

func vGotFromNode(n *shared.ParserNode) vGotRec {
	g := vGotRec{Head: n.Header}
	for _, e := range n.Elements {
		g.Names = append(g.Names, e.Name)
		g.Values = append(g.Values, e.Value)
	}
	if n.Metadata != nil {
		for _, m := range *n.Metadata {
			g.Notes = append(g.Notes, vPNote{m.Name, m.Value})
		}
	}
	return g
}

// vParseStreamStop parses with a callback that stops at the first error.
func vParseStreamStop(r io.Reader, recs *[]vGotRec) error {
	return parser.ParseStreamCallback(r, parser.NewDefaultConfig(), func(n *shared.ParserNode, err error) (bool, error) {
		if err != nil {
			return true, err
		}
		*recs = append(*recs, vGotFromNode(n))
		return false, nil
	})
}

func vParseAllReader(r io.Reader) (recs []vGotRec, errs []string, ret error) {
	ret = parser.ParseStreamCallback(r, parser.NewDefaultConfig(), func(n *shared.ParserNode, err error) (bool, error) {
		if err != nil {
			errs = append(errs, err.Error())
			return false, nil
		}
		if n == nil {
			errs = append(errs, "<nil node with nil error>")
			return false, nil
		}
		g := vGotRec{Head: n.Header}
		for _, e := range n.Elements {
			g.Names = append(g.Names, e.Name)
			g.Values = append(g.Values, e.Value)
		}
		if n.Metadata != nil {
			for _, m := range *n.Metadata {
				g.Notes = append(g.Notes, vPNote{m.Name, m.Value})
			}
		}
		recs = append(recs, g)
		return false, nil
	})
	return
}

func vCompareParsed(want []vPRec, got []vGotRec, errs []string, ret error, what string) *vFailure {
	if ret != nil {
		return vFailf("%s: parser returned error %v on a well-formed file", what, ret)
	}
	if len(errs) > 0 {
		return vFailf("%s: parser reported errors on a well-formed file: %q", what, errs)
	}
	if len(want) != len(got) {
		var hs []string
		for _, g := range got {
			hs = append(hs, g.Head)
		}
		return vFailf("%s: %d records expected, %d delivered (headings %q)", what, len(want), len(got), hs)
	}
	for i := range want {
		w, g := want[i], got[i]
		if w.Head != g.Head {
			return vFailf("%s: record %d: heading %q expected, got %q", what, i, w.Head, g.Head)
		}
		if len(w.Entries) != len(g.Names) {
			return vFailf("%s: record %d (%q): %d entries expected, got %d: %q", what, i, w.Head, len(w.Entries), len(g.Names), g.Names)
		}
		for k, e := range w.Entries {
			if e.Name != g.Names[k] {
				return vFailf("%s: record %d entry %d: name %q expected, got %q", what, i, k, e.Name, g.Names[k])
			}
			wv := vNearest(e.Num)
			if wv != g.Values[k] || math.IsNaN(g.Values[k]) {
				return vFailf("%s: record %d entry %d (%q): text %q must read as %v, got %v", what, i, k, e.Name, e.Num, wv, g.Values[k])
			}
		}
		if len(w.Notes) != len(g.Notes) {
			return vFailf("%s: record %d (%q): %d notes expected, got %d: %q", what, i, w.Head, len(w.Notes), len(g.Notes), g.Notes)
		}
		for k, n := range w.Notes {
			if n != g.Notes[k] {
				return vFailf("%s: record %d note %d: %q expected, got %q", what, i, k, n, g.Notes[k])
			}
		}
	}
	return nil
}

func c04Features(d vDoc) map[string]bool {
	f := map[string]bool{}
	line := func(l vLine) {
		if l.L.EOL == "\r\n" {
			f["crlf"] = true
		}
		switch l.Kind {
		case vkEntry:
			if strings.Contains(l.L.Indent, "\t") {
				f["tab"] = true
			}
			if l.L.Dash != "" {
				f["dash"] = true
			}
			if l.L.Quote {
				f["quote"] = true
			}
			if strings.ContainsAny(l.Num, "eE+-") || strings.HasPrefix(l.Num, ".") || strings.HasSuffix(l.Num, ".") {
				f["numshape"] = true
			}
			if l.L.Trail != "" {
				f["trail"] = true
			}
		case vkNote, vkTNote:
			f["note"] = true
		case vkComment:
			f["comment"] = true
		case vkBlank:
			f["blank"] = true
		}
	}
	for _, l := range d.Pre {
		line(l)
	}
	for _, r := range d.Recs {
		if r.HL.EOL == "\r\n" {
			f["crlf"] = true
		}
		if r.HL.Quote {
			f["quote"] = true
		}
		for _, l := range r.Lines {
			line(l)
		}
	}
	if d.NoFinalNL {
		f["nofinalnl"] = true
	}
	return f
}

func checkC04(c c04Case, ctx *vCtx) *vFailure {
	want := c.Doc.Parsed()
	text := c.Doc.Render()
	got, errs, ret := vParseAll(text)
	ctx.Run(1)
	if f := vCompareParsed(want, got, errs, ret, "callback parser"); f != nil {
		return f
	}
	feats := c04Features(c.Doc)
	for k := range feats {
		ctx.Label("feature:" + k)
	}
	ctx.NonTrivial(len(want) >= 2 && len(feats) >= 2)
	if len(c.Alt.Recs) > 0 {
		got2, errs2, ret2 := vParseAll(c.Alt.Render())
		ctx.Run(1)
		if f := vCompareParsed(want, got2, errs2, ret2, "callback parser (second layout of the same content)"); f != nil {
			return f
		}
	}
	if c.CLI {
		if f := c04CLI(c, want, text, ctx); f != nil {
			return f
		}
	}
	return nil
}

// c04CLI observes the same file through csv database (raw rows, file order),
// and for logs csv log and print.
func c04CLI(c c04Case, want []vPRec, text string, ctx *vCtx) *vFailure {
	p := vWriteFile("c04-file.yaml", text)
	ctx.Label("cli")
	r := vRunApp(vInvocation{Args: []string{"-d", p, "csv", "database"}})
	ctx.Run(1)
	if r.Failed {
		return vFailf("csv database failed on a well-formed file: %s", r)
	}
	rows, err := vReadCSV(r.Stdout)
	if err != nil {
		return vFailf("csv database output is not RFC 4180: %v\n%s", err, vTrunc(r.Stdout, 2000))
	}
	var wantRows [][]string
	for _, rec := range want {
		for _, e := range rec.Entries {
			wantRows = append(wantRows, []string{rec.Head, e.Name, e.Num})
		}
	}
	if len(rows) != len(wantRows) {
		return vFailf("csv database: %d rows expected, got %d\n%s", len(wantRows), len(rows), vTrunc(r.Stdout, 2000))
	}
	for i, w := range wantRows {
		g := rows[i]
		if len(g) != 3 || g[0] != w[0] || g[1] != w[1] {
			return vFailf("csv database row %d: expected (%q,%q,…) got %q", i, w[0], w[1], g)
		}
		if !vNumClose(g[2], vRat(w[2]), 2, nil) {
			return vFailf("csv database row %d (%q): value %s is not %s at two decimals", i, w[1], g[2], w[2])
		}
	}
	if len(text)%3 == 0 && len(text) < 60000 {
		// the same content through a named pipe (the real binary: one process, one reader): what the file says does not
		// depend on the kind of file it is
		fifo := filepath.Join(vScratchDir(), "c04-fifo")
		_ = os.Remove(fifo)
		if err := syscall.Mkfifo(fifo, 0o644); err != nil {
			vFault("mkfifo: %v", err)
		}
		done := make(chan struct{})
		go func() {
			defer close(done)
			f, err := os.OpenFile(fifo, os.O_WRONLY, 0)
			if err != nil {
				return
			}
			_, _ = f.WriteString(text)
			f.Close()
		}()
		b := vRunBin(vInvocation{Args: []string{"-d", fifo, "csv", "database"}}, 30*time.Second)
		ctx.Run(1)
		if f, err := os.OpenFile(fifo, os.O_RDONLY|syscall.O_NONBLOCK, 0); err == nil { // unblock the writer if nobody read
			f.Close()
		}
		<-done
		ctx.Label("cli-through-named-pipe")
		if b.Failed || b.Stdout != r.Stdout {
			return vFailf("csv database of the same content through a named pipe: failed=%v (%s)\n%s\n--- from the regular file:\n%s", b.Failed, vTrunc(b.Stderr, 300), vTrunc(b.Stdout, 1500), vTrunc(r.Stdout, 1500))
		}
	}
	if c.IsLog {
		r := vRunApp(vInvocation{Args: []string{"-l", p, "csv", "log"}})
		ctx.Run(1)
		if r.Failed {
			return vFailf("csv log failed on a well-formed log: %s", r)
		}
		rows, err := vReadCSV(r.Stdout)
		if err != nil {
			return vFailf("csv log output is not RFC 4180: %v", err)
		}
		// one row per (day, distinct food) in first-appearance order
		var wantL [][]string
		for _, rec := range want {
			for _, m := range vMergeEntries(rec.Entries) {
				wantL = append(wantL, []string{rec.Head, m.Name})
			}
		}
		if len(rows) != len(wantL) {
			return vFailf("csv log: %d rows expected, got %d\n%s", len(wantL), len(rows), vTrunc(r.Stdout, 2000))
		}
		for i, w := range wantL {
			if rows[i][1] != w[1] || strings.ReplaceAll(rows[i][0], "-", "/") != w[0] {
				return vFailf("csv log row %d: expected (%q,%q) got %q", i, w[0], w[1], rows[i])
			}
		}
		pr := vRunApp(vInvocation{Args: []string{"-l", p, "print"}})
		ctx.Run(1)
		if pr.Failed {
			return vFailf("print failed on a well-formed log: %s", pr)
		}
		nblocks := strings.Count(pr.Stdout, ":\n  ") // cheap lower bound, precise reading is C14's job
		_ = nblocks
		heads := 0
		for _, ln := range strings.Split(pr.Stdout, "\n") {
			if ln != "" && !strings.HasPrefix(ln, " ") {
				heads++
			}
		}
		if heads != len(want) {
			return vFailf("print: %d day blocks expected, got %d", len(want), heads)
		}
	}
	return nil
}

func genC04(t *rapid.T) c04Case {
	isLog := rapid.IntRange(0, 2).Draw(t, "islog") == 0
	eol := []string{"", "", "\r\n", "mixed"}[rapid.IntRange(0, 3).Draw(t, "eol")]
	lo := vLayoutOpts{EOL: eol}
	nrec := rapid.IntRange(1, 8).Draw(t, "nrec")
	if rapid.IntRange(0, 15).Draw(t, "big") == 0 {
		nrec = rapid.IntRange(9, 30).Draw(t, "nrecbig")
	}
	pool := vGenNamePool(t, true, rapid.IntRange(1, 6).Draw(t, "npool"), "pool")
	var d vDoc
	forceCLI := false
	for i := 0; i < nrec; i++ {
		var head string
		if isLog {
			head = vFmtDay(rapid.IntRange(-400, 800).Draw(t, "day"), "")
			if rapid.IntRange(0, 14).Draw(t, "zeroday") == 0 {
				head = vFmtDay(vZeroDay, "") // 0001/01/01
			}
		} else if rapid.Bool().Draw(t, "headfrompool") {
			head = pool[rapid.IntRange(0, len(pool)-1).Draw(t, "headi")]
		} else {
			head = vGenName(t, true, "head")
		}
		ne := rapid.IntRange(0, 6).Draw(t, "nent")
		wide := rapid.IntRange(0, 24).Draw(t, "wide") == 0
		if wide {
			ne = rapid.IntRange(20, 300).Draw(t, "nentwide") // records with many distinct names, some of them repeated
		}
		var lines []vLine
		for k := 0; k < ne; k++ {
			var nm string
			if wide && len(lines) > 0 && rapid.IntRange(0, 5).Draw(t, "widedup") == 0 {
				nm = lines[rapid.IntRange(0, len(lines)-1).Draw(t, "widedupi")].Name
			} else if wide {
				nm = fmt.Sprintf("item %d", rapid.IntRange(0, 400).Draw(t, "widei"))
			} else if rapid.IntRange(0, 3).Draw(t, "fresh") == 0 {
				nm = vGenName(t, true, "ename")
			} else {
				nm = pool[rapid.IntRange(0, len(pool)-1).Draw(t, "ei")]
			}
			lines = append(lines, vLine{Kind: vkEntry, Name: nm, Num: vGenNumAny(t, "num"), L: vGenEntryLayout(t, lo, "el")})
		}
		if wide && rapid.IntRange(0, 2).Draw(t, "widesorted") == 0 {
			// a long record kept in ascending name order (repeated names next to each other)
			sort.SliceStable(lines, func(a, b int) bool { return lines[a].Name < lines[b].Name })
		}
		if len(lines) > 0 && rapid.IntRange(0, 11).Draw(t, "longtwice") == 0 {
			// a name of 64..300 bytes mentioned twice (or three times) in the record, other entries in between
			src := lines[rapid.IntRange(0, len(lines)-1).Draw(t, "longtwicei")]
			target := []int{63, 64, 65, 127, 128, 129, 255, 256, 300}[rapid.IntRange(0, 8).Draw(t, "longtwicen")]
			pad := []string{"x", "я", "飯", "/seg", " y"}[rapid.IntRange(0, 4).Draw(t, "longtwicepad")]
			nm := src.Name
			for len(nm) < target {
				nm += pad
			}
			nm += "z"
			for k := rapid.IntRange(2, 3).Draw(t, "longtwicek"); k > 0; k-- {
				at := rapid.IntRange(0, len(lines)).Draw(t, "longtwiceat")
				ln := vLine{Kind: vkEntry, Name: nm, Num: vGenNumAny(t, "longtwicenum"), L: vGenEntryLayout(t, lo, "longtwicel")}
				lines = append(lines[:at], append([]vLine{ln}, lines[at:]...)...)
			}
			forceCLI = true
		}
		hl := vGenHeadLayout(t, lo, "hl")
		if !isLog && rapid.IntRange(0, 9).Draw(t, "hashhead") == 0 {
			// a name that begins with the comment character can only be written quoted, and only as a heading
			head, hl.Quote = "#"+head, true
		}
		d.Recs = append(d.Recs, vRec{Head: head, HL: hl, Lines: lines})
	}
	vDecorate(t, &d, lo, true, "deco")
	alt := vRelayout(t, d)
	return c04Case{Doc: d, Alt: alt, CLI: rapid.IntRange(0, 9).Draw(t, "cli") == 0 || forceCLI, IsLog: isLog}
}

// vRelayout draws a fresh layout for the same content: entries and notes are
// kept (with new layouts), filler lines are dropped and drawn anew.
func vRelayout(t *rapid.T, d vDoc) vDoc {
	lo2 := vLayoutOpts{EOL: []string{"", "\r\n", "mixed"}[rapid.IntRange(0, 2).Draw(t, "alt.eol")]}
	var out vDoc
	for _, r := range d.Recs {
		nr := vRec{Head: r.Head, HL: vGenHeadLayout(t, lo2, "alt.hl")}
		if strings.HasPrefix(r.Head, "#") {
			nr.HL.Quote = true // unquoted it would be a comment line
		}
		for _, l := range r.Lines {
			nl := l
			switch l.Kind {
			case vkEntry:
				nl.L = vGenEntryLayout(t, lo2, "alt.el")
			case vkNote, vkTNote:
				nl.L = vGenNoteLayout(t, lo2, "alt.nl")
				nl.L.Quote = l.L.Quote // the quoted spelling puts a quote into the note's name: content, not layout
			default:
				continue
			}
			nr.Lines = append(nr.Lines, nl)
		}
		out.Recs = append(out.Recs, nr)
	}
	vDecorate(t, &out, lo2, false, "alt.deco")
	return out
}

// ---------------------------------------------------------------------------
// exhaustive short files over a token alphabet

var c04Tokens = []struct {
	name string
	mk   func(i int, eol string) (vLine, *vRec)
}{
	{"heading", func(i int, eol string) (vLine, *vRec) {
		return vLine{}, &vRec{Head: fmt.Sprintf("h%d/x", i), HL: vLayout{EOL: eol}}
	}},
	{"heading-quoted", func(i int, eol string) (vLine, *vRec) {
		return vLine{}, &vRec{Head: fmt.Sprintf("h %d", i), HL: vLayout{Quote: true, Trail: " ", EOL: eol}}
	}},
	{"entry-spaces", func(i int, eol string) (vLine, *vRec) {
		return vLine{Kind: vkEntry, Name: fmt.Sprintf("e%d", i), Num: "1.5", L: vLayout{Indent: "  ", Sep: ": ", EOL: eol}}, nil
	}},
	{"entry-tab", func(i int, eol string) (vLine, *vRec) {
		return vLine{Kind: vkEntry, Name: "два слова", Num: "2", L: vLayout{Indent: "\t", Sep: ":\t", EOL: eol}}, nil
	}},
	{"entry-dash", func(i int, eol string) (vLine, *vRec) {
		return vLine{Kind: vkEntry, Name: "a/b", Num: "-3", L: vLayout{Indent: "  ", Dash: "- ", Sep: ": ", Trail: " ", EOL: eol}}, nil
	}},
	{"entry-dash-col0", func(i int, eol string) (vLine, *vRec) {
		return vLine{Kind: vkEntry, Name: "c0", Num: ".25", L: vLayout{Dash: "- ", Sep: ": ", EOL: eol}}, nil
	}},
	{"entry-quoted", func(i int, eol string) (vLine, *vRec) {
		return vLine{Kind: vkEntry, Name: "q, \"x\" y", Num: "4.", L: vLayout{Indent: "    ", Quote: true, Sep: ": ", EOL: eol}}, nil
	}},
	{"entry-exp", func(i int, eol string) (vLine, *vRec) {
		return vLine{Kind: vkEntry, Name: "x.y_z", Num: "-1.5e-3", L: vLayout{Indent: " ", Sep: ":  ", EOL: eol}}, nil
	}},
	{"comment", func(i int, eol string) (vLine, *vRec) {
		return vLine{Kind: vkComment, Text: " c: 1", L: vLayout{EOL: eol}}, nil
	}},
	{"blank", func(i int, eol string) (vLine, *vRec) {
		return vLine{Kind: vkBlank, Text: []string{"", "  "}[i%2], L: vLayout{EOL: eol}}, nil
	}},
	{"note-kv", func(i int, eol string) (vLine, *vRec) {
		return vLine{Kind: vkNote, Name: "k k", Text: "v 1", L: vLayout{Indent: "  ", EOL: eol}}, nil
	}},
	{"note-text", func(i int, eol string) (vLine, *vRec) {
		return vLine{Kind: vkTNote, Text: "just text", L: vLayout{Indent: "\t", EOL: eol}}, nil
	}},
}

type c04EnumCase struct {
	Tokens []int `json:"tokens"` // indices into the token alphabet; first is a heading
	CRLF   bool  `json:"crlf"`
	NoNL   bool  `json:"nonl"`
}

func (c c04EnumCase) doc() vDoc {
	eol := "\n"
	if c.CRLF {
		eol = "\r\n"
	}
	var d vDoc
	for i, ti := range c.Tokens {
		l, h := c04Tokens[ti].mk(i, eol)
		if h != nil {
			d.Recs = append(d.Recs, *h)
			continue
		}
		if len(d.Recs) == 0 {
			d.Pre = append(d.Pre, l)
			continue
		}
		r := &d.Recs[len(d.Recs)-1]
		r.Lines = append(r.Lines, l)
	}
	d.NoFinalNL = c.NoNL
	return d
}

func checkC04Enum(c c04EnumCase, ctx *vCtx) *vFailure {
	d := c.doc()
	got, errs, ret := vParseAll(d.Render())
	ctx.Run(1)
	if f := vCompareParsed(d.Parsed(), got, errs, ret, "callback parser"); f != nil {
		return vFailf("%s\nfile: %q", f.Msg, d.Render())
	}
	kinds := map[int]bool{}
	for _, t := range c.Tokens {
		kinds[t] = true
	}
	ctx.NonTrivial(len(d.Recs) >= 1 && len(kinds) >= 3)
	return nil
}

// c04EnumAt maps an index to the i-th token sequence: lengths 1..maxLen, the
// first token a heading (2 choices), the others any of the 12 tokens,
// times {LF, CRLF} x {final newline, none}.
func c04EnumSpace(maxLen int) (total int, at func(i int) c04EnumCase) {
	nt := len(c04Tokens)
	var sizes []int
	for l := 1; l <= maxLen; l++ {
		n := 2
		for k := 1; k < l; k++ {
			n *= nt
		}
		sizes = append(sizes, n*4)
		total += n * 4
	}
	at = func(i int) c04EnumCase {
		l := 1
		for i >= sizes[l-1] {
			i -= sizes[l-1]
			l++
		}
		c := c04EnumCase{CRLF: i&1 == 1, NoNL: i&2 == 2}
		i >>= 2
		toks := make([]int, l)
		toks[0] = i % 2
		i /= 2
		for k := 1; k < l; k++ {
			toks[k] = i % nt
			i /= nt
		}
		c.Tokens = toks
		return c
	}
	return
}

func init() {
	vRegister("C04", "c04.random", checkC04)
	vRegister("C04", "c04.bulk", checkC04Bulk)
	vRegister("C04", "c04.enum", checkC04Enum)
}

// ---------------------------------------------------------------------------
// bulk: hundreds of thousands of pairwise different entry lines in one file. Anything keyed by a short digest of a line
// or a name (a memo, an interning table) meets its first collisions at this size; the oracle is the construction.

type c04BulkCase struct {
	Seed  uint64 `json:"seed"`
	Lines int    `json:"lines"`
	IsLog bool   `json:"islog"`
}

func c04BulkWord(s *uint64, min, max int) string {
	*s = vSplitMix(*s)
	n := min + int(*s%uint64(max-min+1))
	b := make([]byte, n)
	x := *s >> 8
	for i := range b {
		if x == 0 {
			*s = vSplitMix(*s)
			x = *s
		}
		b[i] = byte('a' + x%26)
		x /= 26
	}
	return string(b)
}

func checkC04Bulk(c c04BulkCase, ctx *vCtx) *vFailure {
	s := c.Seed
	var sb strings.Builder
	type ent struct {
		name string
		val  float64
	}
	var heads []string
	var ents [][]ent
	seen := make(map[string]bool, c.Lines)
	for len(seen) < c.Lines {
		if len(heads) == 0 || len(ents[len(ents)-1]) >= 40 {
			h := fmt.Sprintf("%s %d", c04BulkWord(&s, 3, 9), len(heads))
			if c.IsLog {
				h = vFmtDay(len(heads)%20000, "")
			}
			heads = append(heads, h)
			ents = append(ents, nil)
			sb.WriteString(h + ":\n")
		}
		name := c04BulkWord(&s, 2, 7)
		for k := int(vSplitMix(s) % 3); k > 0; k-- {
			name += "/" + c04BulkWord(&s, 2, 6)
		}
		s = vSplitMix(s)
		half := int64(s % 4000)
		val := vFmtHalves(int(half))
		line := "  " + name + ": " + val
		if seen[line] {
			continue
		}
		seen[line] = true
		sb.WriteString(line + "\n")
		ents[len(ents)-1] = append(ents[len(ents)-1], ent{name, float64(half) / 2})
	}
	ctx.NonTrivial(true)
	ctx.Labelf("lines=%d", c.Lines)
	i := 0
	var fail *vFailure
	err := parser.ParseStreamCallback(strings.NewReader(sb.String()), parser.NewDefaultConfig(), func(n *shared.ParserNode, perr error) (bool, error) {
		if perr != nil {
			fail = vFailf("bulk file (%d different entry lines): the parser reports %v on a well-formed file", c.Lines, perr)
			return true, nil
		}
		if i >= len(heads) || n.Header != heads[i] {
			fail = vFailf("bulk file: record %d has heading %q, expected %q", i, n.Header, heads[min(i, len(heads)-1)])
			return true, nil
		}
		w := ents[i]
		if len(n.Elements) != len(w) {
			fail = vFailf("bulk file: record %d (%q) has %d entries, expected %d", i, n.Header, len(n.Elements), len(w))
			return true, nil
		}
		for k, e := range n.Elements {
			if e.Name != w[k].name || e.Value != w[k].val {
				fail = vFailf("bulk file (%d different entry lines): record %d (%q) entry %d is (%q, %v), the file says (%q, %v)", c.Lines, i, n.Header, k, e.Name, e.Value, w[k].name, w[k].val)
				return true, nil
			}
		}
		i++
		return false, nil
	})
	ctx.Run(1)
	if fail != nil {
		return fail
	}
	if err != nil {
		return vFailf("bulk file: parser returned %v", err)
	}
	if i != len(heads) {
		return vFailf("bulk file: %d records delivered, %d expected", i, len(heads))
	}
	return nil
}

func TestVerifC04Bulk(t *testing.T) {
	n := vPick(8, 64)
	lines := 400000
	vEnum(t, "C04", "c04.bulk",
		"files of 400 000 pairwise different entry lines (names of 1-3 path segments, values k/2) under 10 000 headings, built from a seed; every record, name and value compared with the construction",
		fmt.Sprintf("%d files", n), n, func(i int) c04BulkCase {
			return c04BulkCase{Seed: uint64(vSeedBase)*1000003 + uint64(i)*7919 + 1, Lines: lines, IsLog: i%4 == 3}
		}, checkC04Bulk)
}

func TestVerifC04Random(t *testing.T) {
	vRapid(t, "C04", "c04.random",
		"random record/entry ASTs (wild names, every number shape, 1-30 records) rendered with per-line layout draws (indent, dash, quotes, separators, trailing blanks, LF/CRLF/mixed, final newline, comments, blanks, notes); oracle = the AST; non-trivial = >=2 records and >=2 distinct layout features; distinct = hash of the case",
		vBudget(12000, 320000), genC04, checkC04)
}

func TestVerifC04Enum(t *testing.T) {
	maxLen := vPick(5, 6)
	total, at := c04EnumSpace(maxLen)
	vEnum(t, "C04", "c04.enum",
		"all token sequences up to the length bound over a 12-token alphabet (2 headings, 6 entry layouts, comment, blank, 2 notes), first token a heading, x {LF,CRLF} x {final newline or not}; non-trivial = >=3 distinct token kinds",
		fmt.Sprintf("token sequences of length 1..%d", maxLen), total, at, checkC04Enum)
}
