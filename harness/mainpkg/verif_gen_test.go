//go:build go1.21

package main

// Generators: names, numbers, file ASTs with layout, recipe books, logs.
// Every random choice is a rapid draw.

import (
	"fmt"
	"math/big"
	"sort"
	"strings"
	"unicode"
	"unicode/utf8"

	"pgregory.net/rapid"
)

// ---------------------------------------------------------------------------
// file AST

type vLayout struct {
	Indent string `json:"i,omitempty"`
	Dash   string `json:"d,omitempty"`
	Quote  bool   `json:"q,omitempty"`
	Sep    string `json:"s,omitempty"` // after the name: ':' followed by blanks
	Trail  string `json:"t,omitempty"`
	EOL    string `json:"e,omitempty"` // "\n" or "\r\n"
	// NoColon: a heading written without its colon (the reader takes every column-0 line that is not a comment or a
	// list dash for a heading); only used where the quantifier is "every file" (C10)
	NoColon bool `json:"nc,omitempty"`
}

const (
	vkEntry   = "entry"   // Name, Num
	vkNote    = "note"    // "# Name: Text"
	vkTNote   = "tnote"   // "# Text"
	vkComment = "comment" // column-0 "#Text"
	vkBlank   = "blank"   // Text = whitespace only
	vkRaw     = "raw"     // Text verbatim (malformed lines etc.)
)

type vLine struct {
	Kind string  `json:"k"`
	Name string  `json:"n,omitempty"`
	Num  string  `json:"v,omitempty"`
	Text string  `json:"x,omitempty"`
	L    vLayout `json:"l"`
}

type vRec struct {
	Head  string  `json:"head"`
	HL    vLayout `json:"hl"`
	Lines []vLine `json:"lines"`
}

type vDoc struct {
	Pre       []vLine `json:"pre,omitempty"`
	Recs      []vRec  `json:"recs"`
	NoFinalNL bool    `json:"nofinalnl,omitempty"`
}

func (l vLine) render() string {
	eol := l.L.EOL
	if eol == "" {
		eol = "\n"
	}
	switch l.Kind {
	case vkEntry:
		name := l.Name
		if l.L.Quote {
			name = `"` + name + `"`
		}
		sep := l.L.Sep
		if sep == "" {
			sep = ": "
		}
		num := l.Num
		if strings.HasSuffix(sep, "\"") {
			num += "\"" // the quantity in quotes
		}
		return l.L.Indent + l.L.Dash + name + sep + num + l.L.Trail + eol
	case vkNote:
		if l.L.Quote {
			// written like a quoted name that begins with the comment character: a note all the same (the opening quote
			// is layout, the closing one ends up in the note's name)
			return l.L.Indent + l.L.Dash + "\"#" + l.Name + "\": " + l.Text + l.L.Trail + eol
		}
		return l.L.Indent + l.L.Dash + "# " + l.Name + ": " + l.Text + l.L.Trail + eol
	case vkTNote:
		return l.L.Indent + l.L.Dash + "# " + l.Text + l.L.Trail + eol
	case vkComment:
		return "#" + l.Text + eol
	case vkBlank:
		return l.Text + eol
	case vkRaw:
		return l.Text + eol
	}
	panic("unknown line kind " + l.Kind)
}

func (r vRec) renderHead() string {
	eol := r.HL.EOL
	if eol == "" {
		eol = "\n"
	}
	h := r.Head
	if r.HL.Quote {
		h = `"` + h + `"`
	}
	if r.HL.NoColon {
		return h + r.HL.Trail + eol
	}
	if r.HL.Sep != "" { // a dash (and blanks) between the name and the colon: cut like the colon itself
		return h + r.HL.Sep + r.HL.Trail + eol
	}
	return h + ":" + r.HL.Trail + eol
}

// Render gives the file text. Lines() gives the same split in physical lines
// (1-based line i is Lines()[i-1]) without terminators.
func (d vDoc) Render() string {
	var sb strings.Builder
	for _, l := range d.Pre {
		sb.WriteString(l.render())
	}
	for _, r := range d.Recs {
		sb.WriteString(r.renderHead())
		for _, l := range r.Lines {
			sb.WriteString(l.render())
		}
	}
	s := sb.String()
	if d.NoFinalNL {
		s = strings.TrimSuffix(s, "\n")
		s = strings.TrimSuffix(s, "\r")
	}
	return s
}

// parsed view (the expectation)

type vPEntry struct {
	Name string
	Num  string
}
type vPNote struct{ Name, Value string }
type vPRec struct {
	Head    string
	Entries []vPEntry
	Notes   []vPNote
}

func (d vDoc) Parsed() []vPRec {
	out := make([]vPRec, 0, len(d.Recs))
	for _, r := range d.Recs {
		pr := vPRec{Head: r.Head}
		for _, l := range r.Lines {
			switch l.Kind {
			case vkEntry:
				pr.Entries = append(pr.Entries, vPEntry{l.Name, l.Num})
			case vkNote:
				if l.L.Quote {
					pr.Notes = append(pr.Notes, vPNote{l.Name + "\"", l.Text})
				} else {
					pr.Notes = append(pr.Notes, vPNote{l.Name, l.Text})
				}
			case vkTNote:
				pr.Notes = append(pr.Notes, vPNote{"", l.Text})
			}
		}
		out = append(out, pr)
	}
	return out
}

func vRat(num string) *big.Rat {
	r, ok := new(big.Rat).SetString(num)
	if !ok {
		vFault("generator produced a number big.Rat cannot read: %q", num)
	}
	return r
}

// vNearest is the float64 nearest to the decimal text (round half to even),
// computed with math/big only.
func vNearest(num string) float64 {
	f, _ := vRat(num).Float64()
	return f
}

// ---------------------------------------------------------------------------
// names

var (
	vEdgeASCII  = []rune("abcdefghijklmnopqrstuvwxyzABCDEFGHIJKLMNOPQRSTUVWXYZ")
	vEdgeDigits = []rune("0123456789")
	vEdgeCyr    = []rune("абвгдежзийклмнопрстуфхцчшщъьюяАБВРСТЩЯЁёї")
	vEdgeGreek  = []rune("αβγδεζηθλμπσφωΩΠΣΦΑ")
	vEdgeCJK    = []rune("米飯麺茶水魚肉卵豆腐한글かな")
	vEdgeLatin  = []rune("éèêëàâäôöùûüçñßøåÉÖÀÐÿµªºþ")
	vEdgeOther  = []rune("אבגשעبتثकखगกขด")
	vInnerWild  = []string{" ", "  ", "/", ".", "_", "'", "(", ")", "%", "+", "&", ",", "\"", ":", "-", "#", "=", ", ", ": ", " - ", " #", "\\", "\": ", "\\ ", "…", "’", "‘", " 2 #", " 12 #", "\t", "\t ", "\", ", "\",\"", "\"\"", ",\""}
	vInnerTame  = []string{" ", "/", ".", "_", "-", "'", "&", "+", "%", "(", ")", ",", "<", ">", ";", "…", "  ", "’", "‘"}
	// the top of the basic plane (lead byte EF: halfwidth and fullwidth forms, compatibility ideographs, ligatures,
	// private use) and characters beyond it (four bytes)
	vEdgeHigh    = []rune("ｶﾛﾘｰＡｚ１豈ﬁ\uE000\uF8FF\uFFFD𝒳🍎𠀋")
	vEdgeClasses = [][]rune{vEdgeASCII, vEdgeASCII, vEdgeASCII, vEdgeDigits, vEdgeCyr, vEdgeGreek, vEdgeCJK, vEdgeLatin, vEdgeOther, vEdgeLowByte(), vEdgeHigh}
)

// vEdgeLowByte: letters whose code point ends in the byte of a character the format gives a meaning to (tab, newline,
// blank, quote, #, -, /, :): U+0423 У, U+0123 ģ, U+0623 أ, U+0E23 ร, U+4E2D 中 ... A parser that looks at a truncated
// rune, or at one byte of a wider unit, takes them for that character.
func vEdgeLowByte() []rune {
	var out []rune
	for _, b := range []rune{0x09, 0x0a, 0x0d, 0x20, 0x22, 0x23, 0x27, 0x2d, 0x2f, 0x3a} {
		for _, page := range []rune{0x0100, 0x0400, 0x0600, 0x0900, 0x0e00, 0x4e00, 0x9000, 0x5700, 0xac00} {
			if r := page + b; unicode.IsLetter(r) {
				out = append(out, r)
			}
		}
	}
	return out
}

func vGenEdgeRune(t *rapid.T, label string) rune {
	cl := vEdgeClasses[rapid.IntRange(0, len(vEdgeClasses)-1).Draw(t, label+".class")]
	return cl[rapid.IntRange(0, len(cl)-1).Draw(t, label+".rune")]
}

// vGenName builds a name the tokenizer preserves: first and last rune are
// letters/digits of some script; inner runes may be blanks and punctuation.
var vLongNameOneIn = 10 // set by generators that want more names longer than the report columns

func vGenName(t *rapid.T, wild bool, label string) string {
	if wild {
		switch rapid.IntRange(0, 59).Draw(t, label+".odd") {
		case 0: // nothing but punctuation the format gives no meaning to
			return []string{"...", "…", ".", "~", "!", "*", "....", "?"}[rapid.IntRange(0, 7).Draw(t, label+".punct")]
		case 1, 2: // a blank that is not an ASCII blank at the edge of the name: part of the name
			sp := []string{"\u00a0", "\u202f", "\u3000", "\u2003"}[rapid.IntRange(0, 3).Draw(t, label+".nbsp")]
			core := string(vGenEdgeRune(t, label+".nbspa")) + string(vGenEdgeRune(t, label+".nbspb"))
			return []string{core + sp, sp + core, core + sp + sp}[rapid.IntRange(0, 2).Draw(t, label+".nbspside")]
		}
	}
	if rapid.IntRange(0, 14).Draw(t, label+".cjk") == 0 {
		// few runes, many bytes: 5-14 three-byte characters
		k := rapid.IntRange(5, 14).Draw(t, label+".cjkn")
		r := make([]rune, k)
		for i := range r {
			r[i] = vEdgeCJK[rapid.IntRange(0, len(vEdgeCJK)-1).Draw(t, label+".cjkr")]
		}
		return string(r)
	}
	n := rapid.IntRange(1, 6).Draw(t, label+".len")
	if rapid.IntRange(0, vLongNameOneIn-1).Draw(t, label+".long") == 0 {
		n += rapid.IntRange(5, 30).Draw(t, label+".extra")
	}
	var sb strings.Builder
	sb.WriteRune(vGenEdgeRune(t, label+".first"))
	inner := vInnerTame
	if wild {
		inner = vInnerWild
	}
	prevPunct := false
	for i := 1; i < n-1; i++ {
		if !prevPunct && rapid.IntRange(0, 3).Draw(t, label+".p") == 0 {
			sb.WriteString(inner[rapid.IntRange(0, len(inner)-1).Draw(t, label+".inner")])
			prevPunct = !wild // tame names never get two separators in a row
			continue
		}
		prevPunct = false
		sb.WriteRune(vGenEdgeRune(t, label+".mid"))
	}
	if n > 1 {
		sb.WriteRune(vGenEdgeRune(t, label+".last"))
	}
	return sb.String()
}

// vToggleCase flips the case of the first cased letter (ASCII, Cyrillic, Greek, accented Latin).
func vToggleCase(s string) string {
	for i, r := range s {
		if u := unicode.ToUpper(r); u != r {
			return s[:i] + string(u) + s[i+utf8.RuneLen(r):]
		}
		if l := unicode.ToLower(r); l != r {
			return s[:i] + string(l) + s[i+utf8.RuneLen(r):]
		}
	}
	return s
}

// vGenNamePool returns k distinct names.
func vGenNamePool(t *rapid.T, wild bool, k int, label string) []string {
	seen := map[string]bool{}
	var out []string
	for i := 0; len(out) < k; i++ {
		nm := vGenName(t, wild, fmt.Sprintf("%s%d", label, i))
		if len(out) > 0 && rapid.IntRange(0, 5).Draw(t, fmt.Sprintf("%s%d.casevariant", label, i)) == 0 {
			// a name that differs from an earlier one only in letter case is a different name
			src := out[rapid.IntRange(0, len(out)-1).Draw(t, fmt.Sprintf("%s%d.casesrc", label, i))]
			if v := vToggleCase(src); v != src {
				nm = v
			}
		}
		if nm == "h" || nm == "help" { // urfave/cli reads these as its help command when they are an argument
			nm += "x"
		}
		if len(out) > 0 && rapid.IntRange(0, 9).Draw(t, fmt.Sprintf("%s%d.affix", label, i)) == 0 {
			// an earlier name as a proper suffix or prefix of this one ("sauce" / "pasta with sauce")
			src := out[rapid.IntRange(0, len(out)-1).Draw(t, fmt.Sprintf("%s%d.affixsrc", label, i))]
			sep := []string{" ", "/", " with ", "-", " x/", "-x/", ".y/", "/a/", ",z/"}[rapid.IntRange(0, 8).Draw(t, fmt.Sprintf("%s%d.affixsep", label, i))]
			short := string(vEdgeASCII[rapid.IntRange(0, 25).Draw(t, fmt.Sprintf("%s%d.affixch", label, i))])
			if rapid.Bool().Draw(t, fmt.Sprintf("%s%d.affixside", label, i)) {
				nm = short + sep + src
			} else {
				nm = src + sep + short
			}
		}
		if len(out) > 0 && rapid.IntRange(0, 9).Draw(t, fmt.Sprintf("%s%d.digitext", label, i)) == 0 {
			// an earlier name extended by a digit ("b1" and "b12")
			nm = out[rapid.IntRange(0, len(out)-1).Draw(t, fmt.Sprintf("%s%d.digitsrc", label, i))] + fmt.Sprint(rapid.IntRange(0, 9).Draw(t, fmt.Sprintf("%s%d.digit", label, i)))
		}
		if len(out) > 0 && rapid.IntRange(0, 7).Draw(t, fmt.Sprintf("%s%d.twin", label, i)) == 0 {
			// a long name that shares its first and last ten runes with an earlier long name
			src := []rune(out[rapid.IntRange(0, len(out)-1).Draw(t, fmt.Sprintf("%s%d.twinsrc", label, i))])
			if len(src) >= 21 {
				mid := string(vEdgeASCII[rapid.IntRange(0, 25).Draw(t, fmt.Sprintf("%s%d.twinmid", label, i))])
				nm = string(src[:10]) + mid + mid + string(src[len(src)-10:])
			}
		}
		for seen[nm] { // construction, not rejection: make it distinct
			nm += string(vEdgeASCII[len(out)%len(vEdgeASCII)])
		}
		seen[nm] = true
		out = append(out, nm)
	}
	return out
}

// vGenPath builds a category path: 1..maxSeg non-empty segments over a small
// alphabet; one path in 15 is 9-12 segments deep (deeper than any fixed
// indentation table). Segments may carry a blank next to the separator
// ("b /c"), which is a different category than "b/c"; the path as a whole never
// starts or ends with a blank.
func vGenPath(t *rapid.T, segs []string, maxSeg int, label string) string {
	n := rapid.IntRange(1, maxSeg).Draw(t, label+".n")
	if rapid.IntRange(0, 14).Draw(t, label+".deep") == 0 {
		n = rapid.IntRange(9, 12).Draw(t, label+".ndeep")
	}
	parts := make([]string, n)
	for i := range parts {
		parts[i] = segs[rapid.IntRange(0, len(segs)-1).Draw(t, label+".s")]
		if n > 1 && rapid.IntRange(0, 11).Draw(t, label+".blank") == 0 {
			if i > 0 && rapid.Bool().Draw(t, label+".lead") {
				parts[i] = " " + parts[i]
			} else if i < n-1 {
				parts[i] = parts[i] + " "
			}
		}
	}
	// one path in 15 has an empty segment: "a//b", "a/" or "/a" (the separator splits; nothing says a segment has letters)
	if rapid.IntRange(0, 14).Draw(t, label+".empty") == 0 {
		k := rapid.IntRange(0, n).Draw(t, label+".emptyat")
		parts = append(parts[:k], append([]string{""}, parts[k:]...)...)
	}
	return strings.Join(parts, "/")
}

// ---------------------------------------------------------------------------
// numbers (as text)

// vGenNumAny draws a number in any documented/accepted decimal shape.
func vGenNumAny(t *rapid.T, label string) string {
	sign := []string{"", "", "", "-", "-", "+"}[rapid.IntRange(0, 5).Draw(t, label+".sign")]
	switch rapid.IntRange(0, 14).Draw(t, label+".shape") {
	case 14: // leading zeros: decimal all the same (010 is ten), with or without a fraction or an exponent
		z := strings.Repeat("0", rapid.IntRange(1, 3).Draw(t, label+".lz"))
		body := fmt.Sprint(rapid.IntRange(0, 7777).Draw(t, label+".i"))
		switch rapid.IntRange(0, 4).Draw(t, label+".lzk") {
		case 0:
			body += fmt.Sprintf(".%d", rapid.IntRange(0, 99).Draw(t, label+".f"))
		case 1:
			body += fmt.Sprintf("e%d", rapid.IntRange(0, 3).Draw(t, label+".x"))
		}
		return sign + z + body
	case 13: // many decimals but few significant digits
		nz := rapid.IntRange(12, 22).Draw(t, label+".nz")
		return sign + "0." + strings.Repeat("0", nz) + fmt.Sprint(rapid.IntRange(1, 9999).Draw(t, label+".sig")) + strings.Repeat("0", rapid.IntRange(0, 8).Draw(t, label+".tz"))
	case 12: // 15, 16 or 17 significant digits with the point anywhere: the edge of float64's exact integers
		nd := rapid.IntRange(15, 17).Draw(t, label+".nd")
		digits := make([]byte, nd)
		digits[0] = byte('1' + rapid.IntRange(0, 8).Draw(t, label+".d0"))
		if rapid.Bool().Draw(t, label+".big") {
			digits[0] = '9'
		}
		for i := 1; i < nd; i++ {
			digits[i] = byte('0' + rapid.IntRange(0, 9).Draw(t, label+".d"))
		}
		pt := rapid.IntRange(1, nd-1).Draw(t, label+".pt")
		return sign + string(digits[:pt]) + "." + string(digits[pt:])
	case 0, 1:
		return sign + fmt.Sprint(rapid.IntRange(0, 2000).Draw(t, label+".i"))
	case 2, 3:
		return sign + fmt.Sprintf("%d.%d", rapid.IntRange(0, 999).Draw(t, label+".i"), rapid.IntRange(0, 999).Draw(t, label+".f"))
	case 4:
		return sign + fmt.Sprintf("%d.%02d", rapid.IntRange(0, 99).Draw(t, label+".i"), rapid.IntRange(0, 99).Draw(t, label+".f"))
	case 5:
		return sign + fmt.Sprintf(".%d", rapid.IntRange(0, 99).Draw(t, label+".f"))
	case 6:
		return sign + fmt.Sprintf("%d.", rapid.IntRange(0, 99).Draw(t, label+".i"))
	case 7:
		e := []string{"e", "E"}[rapid.IntRange(0, 1).Draw(t, label+".e")]
		return sign + fmt.Sprintf("%d%s%d", rapid.IntRange(1, 99).Draw(t, label+".i"), e, rapid.IntRange(-6, 6).Draw(t, label+".x"))
	case 8:
		return sign + fmt.Sprintf("%d.%de%d", rapid.IntRange(0, 9).Draw(t, label+".i"), rapid.IntRange(0, 99).Draw(t, label+".f"), rapid.IntRange(-9, 12).Draw(t, label+".x"))
	case 9:
		return "-0"
	case 10: // many digits: correct rounding matters
		return sign + fmt.Sprintf("%d.%d%d", rapid.IntRange(0, 99999).Draw(t, label+".i"), rapid.Uint64Range(0, 999999999999).Draw(t, label+".f"), rapid.Uint64Range(0, 999999999999).Draw(t, label+".g"))
	default:
		return sign + []string{"1e-9", "1e12", "0.005", "0.015", "2.675", "1.005", "0.125", "0.375", "1234567.891", "0.0005", "0.0015"}[rapid.IntRange(0, 10).Draw(t, label+".c")]
	}
}

// exact mode: k * step, rendered with a minimal decimal text
func vFmtHalves(k int) string { // k halves
	if k%2 == 0 {
		return fmt.Sprint(k / 2)
	}
	s := ""
	if k < 0 {
		s = "-"
		k = -k
	}
	return fmt.Sprintf("%s%d.5", s, k/2)
}

// vGenQtyExact: multiples of 0.5 in [-8, 8]
func vGenQtyExact(t *rapid.T, label string) string {
	return vFmtHalves(rapid.IntRange(-16, 16).Draw(t, label))
}

// vGenLeafExact: multiples of 0.5 in [-50, 50]
func vGenLeafExact(t *rapid.T, label string) string {
	return vFmtHalves(rapid.IntRange(-100, 100).Draw(t, label))
}

// vGenCoefExact: integers in [-3, 3]
func vGenCoefExact(t *rapid.T, label string) string {
	return fmt.Sprint(rapid.IntRange(-3, 3).Draw(t, label))
}

var vDecimalPool = []string{"259", "3.3", "0.40", "1.20", "-124", "0.001", "48", "9", "1.1", "0.9", "680", "7.5", "0.1", "0.2", "0.3", "1.5", "2.675", "-0.7", "-1.05", "100", "0.07", "33.333", "1e2", "2.5e-1", "0", "1", "2", "-1", "0.5",
	"0.005", "0.015", "0.125", "0.4", "-0.4", "12345678.5", "-1234567.25", "0.104", "0.108",
	"9999999.995", "9999999.999", "-999999.995", "-999999.999", "999.995", "9.995", "0.995", "99999.999",
	"010", "-0100", "+017", "0012.50", "007"}

func vGenNumDecimal(t *rapid.T, label string) string {
	if rapid.IntRange(0, 3).Draw(t, label+".p") == 0 {
		return fmt.Sprintf("%s%d.%d", []string{"", "", "-"}[rapid.IntRange(0, 2).Draw(t, label+".s")], rapid.IntRange(0, 500).Draw(t, label+".i"), rapid.IntRange(0, 99).Draw(t, label+".f"))
	}
	return vDecimalPool[rapid.IntRange(0, len(vDecimalPool)-1).Draw(t, label+".c")]
}

// ---------------------------------------------------------------------------
// layout

var (
	vIndents = []string{"  ", "  ", "  ", "    ", " ", "\t", "\t  ", "  \t"}
	vDashes  = []string{"", "", "", "- ", "- ", "-\t", "-  "}
	vSeps    = []string{": ", ": ", ": ", ": ", ": ", ":\t", ":   ", ": \t", " :", " : ", ": \"", "-: ", " - ", " -: "} // " :" glues the colon to the number; `: "` quotes the number
	vTrails  = []string{"", "", "", " ", "  ", "\t"}
)

type vLayoutOpts struct {
	Plain  bool   // canonical two-space layout only
	EOL    string // "" = LF, "\r\n", or "mixed"
	NoLong bool   // never draw the occasional comment/note line longer than 4096 bytes
}

func vGenEOL(t *rapid.T, o vLayoutOpts, label string) string {
	switch o.EOL {
	case "\r\n":
		return "\r\n"
	case "mixed":
		if rapid.Bool().Draw(t, label+".crlf") {
			return "\r\n"
		}
	}
	return "\n"
}

func vGenEntryLayout(t *rapid.T, o vLayoutOpts, label string) vLayout {
	if o.Plain {
		return vLayout{Indent: "  ", Sep: ": ", EOL: "\n"}
	}
	l := vLayout{
		Indent: vIndents[rapid.IntRange(0, len(vIndents)-1).Draw(t, label+".indent")],
		Dash:   vDashes[rapid.IntRange(0, len(vDashes)-1).Draw(t, label+".dash")],
		Quote:  rapid.IntRange(0, 4).Draw(t, label+".quote") == 0,
		Sep:    vSeps[rapid.IntRange(0, len(vSeps)-1).Draw(t, label+".sep")],
		Trail:  vTrails[rapid.IntRange(0, len(vTrails)-1).Draw(t, label+".trail")],
		EOL:    vGenEOL(t, o, label),
	}
	if l.Dash != "" && rapid.IntRange(0, 3).Draw(t, label+".col0") == 0 {
		l.Indent = "" // YAML dash in column 0
	}
	return l
}

func vGenHeadLayout(t *rapid.T, o vLayoutOpts, label string) vLayout {
	if o.Plain {
		return vLayout{EOL: "\n"}
	}
	l := vLayout{
		Quote: rapid.IntRange(0, 5).Draw(t, label+".quote") == 0,
		Trail: vTrails[rapid.IntRange(0, len(vTrails)-1).Draw(t, label+".trail")],
		EOL:   vGenEOL(t, o, label),
	}
	if rapid.IntRange(0, 11).Draw(t, label+".dashcolon") == 0 {
		l.Sep = []string{"-:", " -:", " - :", "-"}[rapid.IntRange(0, 3).Draw(t, label+".dashcolonv")]
	}
	return l
}

func vGenNoteLayout(t *rapid.T, o vLayoutOpts, label string) vLayout {
	if o.Plain {
		return vLayout{Indent: "  ", EOL: "\n"}
	}
	l := vLayout{
		Indent: vIndents[rapid.IntRange(0, len(vIndents)-1).Draw(t, label+".indent")],
		Trail:  []string{"", "", " "}[rapid.IntRange(0, 2).Draw(t, label+".trail")],
		EOL:    vGenEOL(t, o, label),
	}
	l.Quote = rapid.IntRange(0, 9).Draw(t, label+".quote") == 0 // only named notes are rendered that way
	if rapid.IntRange(0, 5).Draw(t, label+".dash") == 0 {
		// a note written as a list item, like the entries around it ("- # weight: 81"): still a note
		l.Dash = []string{"- ", "-\t", "-  ", "-"}[rapid.IntRange(0, 3).Draw(t, label+".dashv")]
		if rapid.IntRange(0, 3).Draw(t, label+".col0") == 0 {
			l.Indent = ""
		}
	}
	return l
}

var vNoteWords = []string{"barcode", "boiling time", "12 min", "0000000000000", "source", "label", "see page 3", "вкусно", "brand X", "a-b", "x.y", "n/a", "50%", "home made", "20% of the budget", "at 7", "12h30"}

// vNoteValues: what may follow the colon of a named note; a value is kept as written (a leading minus sign, quote or
// colon belongs to it).
var vNoteValues = append(append([]string{}, vNoteWords...), "-5 C, snow", "-200 kcal", "\"no\" twice", ":7 sharp", "- bullet", "+3", "-0.5", "\"quoted\" and more", "#1 of 3", "- - x")

func vGenNoteLine(t *rapid.T, o vLayoutOpts, label string) vLine {
	w := func(l string) string { return vNoteWords[rapid.IntRange(0, len(vNoteWords)-1).Draw(t, l)] }
	if !o.NoLong && rapid.IntRange(0, 39).Draw(t, label+".long") == 0 {
		// a note longer than a 4096-byte read buffer
		return vLine{Kind: vkTNote, Text: "long " + strings.Repeat("n", []int{4090, 4100, 8200}[rapid.IntRange(0, 2).Draw(t, label+".longn")]), L: vGenNoteLayout(t, o, label)}
	}
	if rapid.IntRange(0, 11).Draw(t, label+".empty") == 0 {
		// a note that is nothing but the marker ("  #"): still a note, never an entry
		return vLine{Kind: vkTNote, Text: "", L: vGenNoteLayout(t, o, label)}
	}
	if rapid.Bool().Draw(t, label+".kv") {
		return vLine{Kind: vkNote, Name: w(label + ".k"), Text: vNoteValues[rapid.IntRange(0, len(vNoteValues)-1).Draw(t, label+".v")], L: vGenNoteLayout(t, o, label)}
	}
	return vLine{Kind: vkTNote, Text: w(label + ".t"), L: vGenNoteLayout(t, o, label)}
}

var vCommentTexts = []string{"", " daily nutrition budget", " TODO", "# double", " a: 1", "\ttabbed", " ---", " x: y: z", " seasoning:", "egg/fried:", " per 100 g: ", " 2021/01/05:", "x:", " -", " \"quoted\":", ":", " x: 1 "}

func vGenFillerLine(t *rapid.T, o vLayoutOpts, label string) vLine {
	eol := vGenEOL(t, o, label)
	if !o.NoLong && rapid.IntRange(0, 39).Draw(t, label+".long") == 0 {
		// a comment line longer than a 4096-byte read buffer (but far below the 64 KiB line limit)
		n := []int{4095, 4096, 4097, 8192, 9000}[rapid.IntRange(0, 4).Draw(t, label+".longn")]
		return vLine{Kind: vkComment, Text: strings.Repeat("c", n-1), L: vLayout{EOL: eol}}
	}
	if rapid.Bool().Draw(t, label+".comment") {
		return vLine{Kind: vkComment, Text: vCommentTexts[rapid.IntRange(0, len(vCommentTexts)-1).Draw(t, label+".ct")], L: vLayout{EOL: eol}}
	}
	return vLine{Kind: vkBlank, Text: []string{"", "", "  ", "\t", " ", "---", "---", "  -"}[rapid.IntRange(0, 7).Draw(t, label+".bt")], L: vLayout{EOL: eol}} // a line of dashes reads as a blank line
}

// vDecorate inserts filler lines (blank lines, column-0 comments) and notes
// into a doc built from entries only; layout of existing lines is kept.
func vDecorate(t *rapid.T, d *vDoc, o vLayoutOpts, notes bool, label string) {
	if o.Plain {
		return
	}
	n := rapid.IntRange(0, 2).Draw(t, label+".pre")
	for i := 0; i < n; i++ {
		d.Pre = append(d.Pre, vGenFillerLine(t, o, label+".prel"))
	}
	for ri := range d.Recs {
		r := &d.Recs[ri]
		var out []vLine
		for i := 0; i <= len(r.Lines); i++ {
			k := rapid.IntRange(0, 5).Draw(t, label+".ins")
			if k == 0 {
				out = append(out, vGenFillerLine(t, o, label+".f"))
			} else if k == 1 && notes {
				out = append(out, vGenNoteLine(t, o, label+".n"))
			}
			if i < len(r.Lines) {
				out = append(out, r.Lines[i])
			}
		}
		r.Lines = out
	}
	d.NoFinalNL = rapid.IntRange(0, 3).Draw(t, label+".nofinal") == 0
}

// ---------------------------------------------------------------------------
// recipe books

type vBookOpts struct {
	MaxRecipes int
	MaxDepth   int  // levels 0..MaxDepth-1 → h_max ≤ MaxDepth
	Wild       bool // name profile
	Exact      bool // numeric mode
	Paths      bool // recipe names are category paths
	Layout     vLayoutOpts
	Notes      bool
	NBasics    int
	NoWide     bool     // never add the occasional pair of 30-60 element recipes
	PathSegs   []string // segment alphabet for Paths (default a, b, c, dd, "e f")
	PathMax    int      // maximum number of segments (default 3)
	NoTwins    bool     // never add the pair of recipes whose glued (recipe, element) texts coincide
}

type vBookInfo struct {
	Recipes []string // recipe names in declaration order
	Basics  []string // basic element pool
}

// vGenBook draws an acyclic recipe book. Each recipe gets a level; its
// ingredients come from strictly lower levels and from the basic pool.
func vGenBook(t *rapid.T, o vBookOpts, label string) (vDoc, vBookInfo) {
	nrec := rapid.IntRange(0, o.MaxRecipes).Draw(t, label+".nrec")
	nb := o.NBasics
	if nb == 0 {
		nb = 4
	}
	nbasic := rapid.IntRange(1, nb).Draw(t, label+".nbasic")
	var names []string
	if o.Paths {
		segs := []string{"a", "b", "c", "dd", "e f"}
		if len(o.PathSegs) > 0 {
			segs = o.PathSegs
		}
		pmax := 3
		if o.PathMax > 0 {
			pmax = o.PathMax
		}
		seen := map[string]bool{}
		for len(names) < nrec+nbasic {
			p := vGenPath(t, segs, pmax, label+".path")
			for seen[p] {
				p += "x"
			}
			seen[p] = true
			names = append(names, p)
		}
	} else {
		names = vGenNamePool(t, o.Wild, nrec+nbasic, label+".name")
	}
	recNames, basics := names[:nrec], names[nrec:]
	levels := make([]int, nrec)
	maxd := o.MaxDepth
	if maxd < 1 {
		maxd = 1
	}
	flat := rapid.IntRange(0, 7).Draw(t, label+".flat") == 0 // no recipe refers to a recipe
	for i := range levels {
		levels[i] = rapid.IntRange(0, maxd-1).Draw(t, label+".level")
		if flat {
			levels[i] = 0
		}
	}
	recs := make([]vRec, nrec)
	for i := 0; i < nrec; i++ {
		var lower []int
		for j := 0; j < nrec; j++ {
			if levels[j] < levels[i] {
				lower = append(lower, j)
			}
		}
		ning := rapid.IntRange(0, 5).Draw(t, label+".ning")
		var lines []vLine
		for k := 0; k < ning; k++ {
			useRec := len(lower) > 0 && rapid.IntRange(0, 2).Draw(t, label+".userec") > 0
			var nm, num string
			if useRec {
				nm = recNames[lower[rapid.IntRange(0, len(lower)-1).Draw(t, label+".ri")]]
				if o.Exact {
					num = vGenCoefExact(t, label+".coef")
				} else {
					num = vGenNumDecimal(t, label+".coef")
				}
			} else {
				nm = basics[rapid.IntRange(0, len(basics)-1).Draw(t, label+".bi")]
				if o.Exact {
					num = vGenLeafExact(t, label+".leaf")
				} else {
					num = vGenNumDecimal(t, label+".leaf")
				}
			}
			lines = append(lines, vLine{Kind: vkEntry, Name: nm, Num: num, L: vGenEntryLayout(t, o.Layout, label+".el")})
		}
		// sometimes repeat an ingredient
		if len(lines) > 0 && rapid.IntRange(0, 4).Draw(t, label+".rep") == 0 {
			src := lines[rapid.IntRange(0, len(lines)-1).Draw(t, label+".repi")]
			num := src.Num
			switch rapid.IntRange(0, 3).Draw(t, label+".repn") {
			case 0, 1:
				if o.Exact {
					num = "2"
				} else {
					num = vGenNumDecimal(t, label+".repv")
				}
			case 2: // the repetition cancels the first mention exactly
				if strings.HasPrefix(num, "-") {
					num = num[1:]
				} else if strings.HasPrefix(num, "+") {
					num = "-" + num[1:]
				} else {
					num = "-" + num
				}
			}
			lines = append(lines, vLine{Kind: vkEntry, Name: src.Name, Num: num, L: vGenEntryLayout(t, o.Layout, label+".el")})
		}
		recs[i] = vRec{Head: recNames[i], HL: vGenHeadLayout(t, o.Layout, label+".hl"), Lines: lines}
	}
	// one book in 20 gets two wide recipes over a large shared pool of basic
	// elements and a parent using both (lists long enough for any size-dependent
	// fast path in merging)
	if !o.NoWide && o.MaxDepth >= 2 && rapid.IntRange(0, 19).Draw(t, label+".wide") == 0 { // the parent has two levels below it
		taken := map[string]bool{}
		for _, r := range recs {
			taken[r.Head] = true
		}
		uniq := func(base string) string {
			for taken[base] {
				base += "w"
			}
			taken[base] = true
			return base
		}
		// "~" never occurs in generated names, so these cannot collide with them
		w1, w2, par := uniq("wide~1"), uniq("wide~2"), uniq("wide~parent")
		if o.Paths {
			w1, w2, par = uniq("w/wide~1"), uniq("w/wide~2"), uniq("w/parent~")
		}
		npool := rapid.IntRange(34, 90).Draw(t, label+".widepool")
		mk := func(head string, lbl string) vRec {
			var lines []vLine
			for i := 0; i < npool; i++ {
				if rapid.IntRange(0, 9).Draw(t, lbl+".skip") == 0 {
					continue
				}
				num := vGenLeafExact(t, lbl+".v")
				if !o.Exact {
					num = vGenNumDecimal(t, lbl+".v")
				}
				lines = append(lines, vLine{Kind: vkEntry, Name: fmt.Sprintf("n~%02d", i), Num: num, L: vGenEntryLayout(t, o.Layout, lbl+".el")})
			}
			// recipe references at the very end of a long list (position 65 and beyond when the pool is large)
			if o.MaxDepth >= 3 {
				for j := 0; j < nrec && j < len(levels); j++ {
					if levels[j] == 0 && rapid.Bool().Draw(t, lbl+".tailref") {
						cf := "2"
						if !o.Exact {
							cf = vGenNumDecimal(t, lbl+".tailcoef")
						}
						lines = append(lines, vLine{Kind: vkEntry, Name: recNames[j], Num: cf, L: vGenEntryLayout(t, o.Layout, lbl+".el")})
					}
				}
			}
			return vRec{Head: head, HL: vGenHeadLayout(t, o.Layout, lbl+".hl"), Lines: lines}
		}
		coef := func(lbl string) string {
			if o.Exact {
				return vGenCoefExact(t, lbl)
			}
			return vGenNumDecimal(t, lbl)
		}
		// a recipe of one line that only renames a wide one (its list is the wide list, scaled)
		alias := uniq("wide~alias")
		if o.Paths {
			alias = uniq("w/alias~")
		}
		recs = append(recs, vRec{Head: alias, HL: vGenHeadLayout(t, o.Layout, label+".wahl"), Lines: []vLine{{Kind: vkEntry, Name: w1, Num: coef(label + ".wac"), L: vGenEntryLayout(t, o.Layout, label+".wael")}}})
		recs = append(recs, mk(w1, label+".w1"), mk(w2, label+".w2"),
			vRec{Head: par, HL: vGenHeadLayout(t, o.Layout, label+".wphl"), Lines: []vLine{
				{Kind: vkEntry, Name: w1, Num: coef(label + ".wc1"), L: vGenEntryLayout(t, o.Layout, label+".wel")},
				{Kind: vkEntry, Name: w2, Num: coef(label + ".wc2"), L: vGenEntryLayout(t, o.Layout, label+".wel")}}})
		nrec = len(recs)
	}
	// one book in 8 gets a pair of recipes whose (recipe, element) pairs spell the same text when glued together:
	// A with element B<sep>C, and A<sep>B with element C. Anything keyed by a concatenation takes them for one.
	if !o.NoTwins && rapid.IntRange(0, 7).Draw(t, label+".twins") == 0 {
		sep := []string{"/", "/", "", " ", ",", "-", ".", "|"}[rapid.IntRange(0, 7).Draw(t, label+".twinsep")]
		a, b, c := "tw~a", "b~", "c~x"
		num := func(l string) string {
			if o.Exact {
				return vGenLeafExact(t, l)
			}
			return vGenNumDecimal(t, l)
		}
		recs = append(recs,
			vRec{Head: a, HL: vGenHeadLayout(t, o.Layout, label+".twhl"), Lines: []vLine{{Kind: vkEntry, Name: b + sep + c, Num: num(label + ".twv1"), L: vGenEntryLayout(t, o.Layout, label+".twel")}}},
			vRec{Head: a + sep + b, HL: vGenHeadLayout(t, o.Layout, label+".twhl"), Lines: []vLine{{Kind: vkEntry, Name: c, Num: num(label + ".twv2"), L: vGenEntryLayout(t, o.Layout, label+".twel")}}})
		nrec = len(recs)
	}
	// one book in 10 holds two recipes whose resolved lists have the same length and the same first, middle and last
	// name but differ in between (nutrient lists that almost coincide), and a parent that uses both
	if !o.NoTwins && o.MaxDepth >= 2 && rapid.IntRange(0, 9).Draw(t, label+".neartwin") == 0 {
		n := rapid.IntRange(5, 9).Draw(t, label+".neartwinn") // names nt~0..nt~(n-1); each list leaves one out
		m := (n - 1) / 2
		i := rapid.IntRange(1, m).Draw(t, label+".neartwini")
		j := rapid.IntRange(1, m).Draw(t, label+".neartwinj")
		if i == j {
			j = i%m + 1
		}
		if i != j {
			plain := vLayout{Indent: "  ", Sep: ": ", EOL: "\n"}
			mk := func(head string, omit int, base int) vRec {
				r := vRec{Head: head, HL: vLayout{EOL: "\n"}}
				for k := 0; k < n; k++ {
					if k != omit {
						r.Lines = append(r.Lines, vLine{Kind: vkEntry, Name: fmt.Sprintf("nt~%d", k), Num: fmt.Sprint(base + k), L: plain})
					}
				}
				return r
			}
			recs = append(recs, mk("near~one", i, 10), mk("near~two", j, 100),
				vRec{Head: "near~both", HL: vLayout{EOL: "\n"}, Lines: []vLine{{Kind: vkEntry, Name: "near~one", Num: "1", L: plain}, {Kind: vkEntry, Name: "near~two", Num: "2", L: plain}}})
			nrec = len(recs)
		}
	}
	// one book in 6 lists the ingredients of every recipe in ascending name order (repeated ingredients end up next to
	// each other)
	if rapid.IntRange(0, 5).Draw(t, label+".sortedlines") == 0 {
		for ri := range recs {
			sort.SliceStable(recs[ri].Lines, func(a, b int) bool { return recs[ri].Lines[a].Name < recs[ri].Lines[b].Name })
		}
	}
	// one decimal-mode book in 10 holds a sub-recipe whose element gets two tiny contributions, and a parent that scales
	// it by 1e8 or more: an intermediate total far below any printed digit that matters once it is multiplied
	if !o.Exact && !o.NoTwins && len(basics) > 0 && rapid.IntRange(0, 9).Draw(t, label+".tiny") == 0 {
		e := basics[rapid.IntRange(0, len(basics)-1).Draw(t, label+".tinyel")]
		tiny := [][2]string{{"0.0000000003", "0.0000000005"}, {"3e-10", "5e-10"}, {"0.00000000001", "0.00000000002"}, {"7e-10", "-2e-10"}}[rapid.IntRange(0, 3).Draw(t, label+".tinyv")]
		huge := []string{"100000000", "1e9", "250000000", "1e11"}[rapid.IntRange(0, 3).Draw(t, label+".hugev")]
		plain := vLayout{Indent: "  ", Sep: ": ", EOL: "\n"}
		recs = append(recs,
			vRec{Head: "tiny~sub", HL: vLayout{EOL: "\n"}, Lines: []vLine{{Kind: vkEntry, Name: e, Num: tiny[0], L: plain}, {Kind: vkEntry, Name: e, Num: tiny[1], L: plain}}},
			vRec{Head: "huge~parent", HL: vLayout{EOL: "\n"}, Lines: []vLine{{Kind: vkEntry, Name: "tiny~sub", Num: huge, L: plain}}})
		nrec = len(recs)
	}
	// one book in 8 holds a sub-recipe that two (or three) recipes take with shares that differ in the eighth
	// significant digit or later (0.33333333 / 0.33333334, 16777216 / 16777217): different shares, different amounts
	if !o.NoTwins && o.MaxDepth >= 2 && len(basics) > 0 && rapid.IntRange(0, 7).Draw(t, label+".shares") == 0 {
		e := basics[rapid.IntRange(0, len(basics)-1).Draw(t, label+".shareel")]
		sh := [][]string{{"0.33333333", "0.33333334"}, {"16777216", "16777217", "16777218"}, {"1.0000001", "1.00000011"}, {"0.1", "0.10000000149"}, {"1234567.8", "1234567.9"}}[rapid.IntRange(0, 4).Draw(t, label+".sharev")]
		amount := []string{"1000000", "1", "3", "250000"}[rapid.IntRange(0, 3).Draw(t, label+".shareamount")]
		if o.Exact {
			sh, amount = []string{"16777216", "16777217", "16777218"}, []string{"1", "2", "4"}[rapid.IntRange(0, 2).Draw(t, label+".shareamountx")]
		}
		plain := vLayout{Indent: "  ", Sep: ": ", EOL: "\n"}
		recs = append(recs, vRec{Head: "share~sub", HL: vLayout{EOL: "\n"}, Lines: []vLine{{Kind: vkEntry, Name: e, Num: amount, L: plain}}})
		for i, q := range sh {
			recs = append(recs, vRec{Head: fmt.Sprintf("share~user%d", i), HL: vLayout{EOL: "\n"}, Lines: []vLine{{Kind: vkEntry, Name: "share~sub", Num: q, L: plain}}})
		}
		nrec = len(recs)
	}
	// one book in 8: a recipe that lists a basic element, then a sub-recipe, then the same element again, where the
	// sub-recipe unfolds (through one more level) into more names than it has lines
	if !o.NoTwins && o.MaxDepth >= 3 && len(basics) > 0 && rapid.IntRange(0, 7).Draw(t, label+".unfold") == 0 {
		plain := vLayout{Indent: "  ", Sep: ": ", EOL: "\n"}
		e := basics[rapid.IntRange(0, len(basics)-1).Draw(t, label+".unfoldel")]
		k := []int{3, 4, 5, 8, 12, 31, 32, 33, 40, 64, 100}[rapid.IntRange(0, 10).Draw(t, label+".unfoldn")]
		inner := vRec{Head: "unfold~t", HL: vLayout{EOL: "\n"}}
		for i := 0; i < k; i++ {
			inner.Lines = append(inner.Lines, vLine{Kind: vkEntry, Name: fmt.Sprintf("unfold~el%02d", i), Num: fmt.Sprint(i + 1), L: plain})
		}
		recs = append(recs, inner,
			vRec{Head: "unfold~s", HL: vLayout{EOL: "\n"}, Lines: []vLine{{Kind: vkEntry, Name: "unfold~t", Num: "2", L: plain}}},
			vRec{Head: "unfold~top", HL: vLayout{EOL: "\n"}, Lines: []vLine{{Kind: vkEntry, Name: e, Num: "1", L: plain}, {Kind: vkEntry, Name: "unfold~s", Num: "3", L: plain}, {Kind: vkEntry, Name: e, Num: "4", L: plain}}},
			// a few plain ingredients first, then the wide sub-recipe itself
			vRec{Head: "unfold~flat", HL: vLayout{EOL: "\n"}, Lines: []vLine{{Kind: vkEntry, Name: e, Num: "1", L: plain}, {Kind: vkEntry, Name: "unfold~el00", Num: "2", L: plain}, {Kind: vkEntry, Name: "unfold~other", Num: "5", L: plain}, {Kind: vkEntry, Name: "unfold~t", Num: "2", L: plain}}})
		nrec = len(recs)
	}
	// declaration order: random permutation
	if nrec > 1 {
		perm := rapid.Permutation(vIota(nrec)).Draw(t, label+".perm")
		nr := make([]vRec, nrec)
		for i, p := range perm {
			nr[i] = recs[p]
		}
		recs = nr
	}
	d := vDoc{Recs: recs}
	vDecorate(t, &d, o.Layout, o.Notes, label+".deco")
	info := vBookInfo{Basics: basics}
	for _, r := range recs {
		info.Recipes = append(info.Recipes, r.Head)
	}
	return d, info
}

func vIota(n int) []int {
	s := make([]int, n)
	for i := range s {
		s[i] = i
	}
	return s
}

// ---------------------------------------------------------------------------
// logs

// dates are day numbers relative to 2021-01-01 (= 0); rendering is done by
// vFmtDay with an explicit layout so that no time.Time arithmetic enters the
// oracle.

// vZeroDay: 0001/01/01, the first day the calendar has, which is also the zero value of the program's time type
var vZeroDay = vDaysFromCivil(1, 1, 1)

var vDaysInMonth = [12]int{31, 28, 31, 30, 31, 30, 31, 31, 30, 31, 30, 31}

func vIsLeap(y int) bool { return y%4 == 0 && (y%100 != 0 || y%400 == 0) }

// vCivil converts a day number (0 = 2021-01-01) to y, m, d using integer arithmetic.
func vCivil(day int) (y, m, d int) {
	y = 2021
	for day < 0 {
		y--
		if vIsLeap(y) {
			day += 366
		} else {
			day += 365
		}
	}
	for {
		n := 365
		if vIsLeap(y) {
			n = 366
		}
		if day < n {
			break
		}
		day -= n
		y++
	}
	for m = 1; m <= 12; m++ {
		n := vDaysInMonth[m-1]
		if m == 2 && vIsLeap(y) {
			n = 29
		}
		if day < n {
			break
		}
		day -= n
	}
	return y, m, day + 1
}

var vMonthFull = [12]string{"January", "February", "March", "April", "May", "June", "July", "August", "September", "October", "November", "December"}

var vMonthAbbr = [12]string{"Jan", "Feb", "Mar", "Apr", "May", "Jun", "Jul", "Aug", "Sep", "Oct", "Nov", "Dec"}

// vFmtDay renders a day number under one of the Go layouts the checks use.
func vFmtDay(day int, layout string) string {
	y, m, d := vCivil(day)
	switch layout {
	case "", "2006/01/02":
		return fmt.Sprintf("%04d/%02d/%02d", y, m, d)
	case "2006-01-02":
		return fmt.Sprintf("%04d-%02d-%02d", y, m, d)
	case "2006/01/02 %": // a literal percent sign in the layout
		return fmt.Sprintf("%04d/%02d/%02d %%", y, m, d)
	case "%d 2006-01-02 %s":
		return fmt.Sprintf("%%d %04d-%02d-%02d %%s", y, m, d)
	case "06/01/02": // two-digit year: only the years 1969..2068 can be written
		if y < 1969 || y > 2068 {
			vFault("day %d (year %d) cannot be written in the layout 06/01/02", day, y)
		}
		return fmt.Sprintf("%02d/%02d/%02d", y%100, m, d)
	case "2006/02/01": // year/day/month: a text that is also well-formed in the default layout, with another meaning
		return fmt.Sprintf("%04d/%02d/%02d", y, d, m)
	case "02.01.2006":
		return fmt.Sprintf("%02d.%02d.%04d", d, m, y)
	case "02/01/2006":
		return fmt.Sprintf("%02d/%02d/%04d", d, m, y)
	case "2 Jan 2006":
		return fmt.Sprintf("%d %s %04d", d, vMonthAbbr[m-1], y)
	case "20060102":
		return fmt.Sprintf("%04d%02d%02d", y, m, d)
	case "2006-01": // layouts that leave out the day (or more): records of one month share a heading
		return fmt.Sprintf("%04d-%02d", y, m)
	case "Jan 2006":
		return fmt.Sprintf("%s %04d", vMonthAbbr[m-1], y)
	case "2006":
		return fmt.Sprintf("%04d", y)
	case "2006/1/2": // fields of variable width
		return fmt.Sprintf("%04d/%d/%d", y, m, d)
	case "January 2, 2006":
		return fmt.Sprintf("%s %d, %04d", vMonthFull[m-1], d, y)
	case "Mon 2 Jan 2006": // with the day of the week (day 0 = 2021-01-01, a Friday)
		return fmt.Sprintf("%s %d %s %04d", [7]string{"Fri", "Sat", "Sun", "Mon", "Tue", "Wed", "Thu"}[((day%7)+7)%7], d, vMonthAbbr[m-1], y)
	case "2006-01-02 15:04 -0700": // midnight UTC; records with a time of day and an offset are rendered by their generator
		return fmt.Sprintf("%04d-%02d-%02d 00:00 +0000", y, m, d)
	case "2006-01-02 15:04:05.000000000": // midnight, nanoseconds
		return fmt.Sprintf("%04d-%02d-%02d 00:00:00.000000000", y, m, d)
	case "01/02": // no year at all: every date lies in the year the parser gives such values (all days of a case share a year)
		return fmt.Sprintf("%02d/%02d", m, d)
	case "2006-01-02 15:04:05.000000": // midnight, microseconds
		return fmt.Sprintf("%04d-%02d-%02d 00:00:00.000000", y, m, d)
	case "2006-01-02 15:04:05.000": // midnight
		return fmt.Sprintf("%04d-%02d-%02d 00:00:00.000", y, m, d)
	case "2006-01-02T15:04": // layouts whose values carry upper-case letters that are matched exactly (T, Z, AM/PM), at midnight
		return fmt.Sprintf("%04d-%02d-%02dT00:00", y, m, d)
	case "2006-01-02T15:04:05Z07:00":
		return fmt.Sprintf("%04d-%02d-%02dT00:00:00Z", y, m, d)
	case "Jan 2 2006 3:04PM":
		return fmt.Sprintf("%s %d %04d 12:00AM", vMonthAbbr[m-1], d, y)
	case "2006/01/02 15:04 MST": // with a zone abbreviation; records with other abbreviations are rendered by their generator
		return fmt.Sprintf("%04d/%02d/%02d 00:00 UTC", y, m, d)
	case "2006-01-02 15:04": // midnight; records with a time of day are rendered by their generator
		return fmt.Sprintf("%04d-%02d-%02d 00:00", y, m, d)
	}
	vFault("unsupported layout %q", layout)
	return ""
}

type vLogOpts struct {
	MinDays, MaxDays int
	MaxEntries       int
	Foods            []string // pool to draw food names from
	Exact            bool
	AnyNum           bool // quantities in any number shape (parser-level checks)
	DateLayout       string
	BaseDay          int // first possible day number
	Window           int // days are drawn from [BaseDay, BaseDay+Window)
	Sorted           bool
	Layout           vLayoutOpts
	Notes            bool
	NoLongDays       bool // never draw the occasional 17-40 entry day
}

type vLogDay struct {
	Day int // day number
}

// vGenLog draws a log; Days[i] is the day number of d.Recs[i].
func vGenLog(t *rapid.T, o vLogOpts, label string) (vDoc, []int) {
	nd := rapid.IntRange(o.MinDays, o.MaxDays).Draw(t, label+".ndays")
	win := o.Window
	if win <= 0 {
		win = 6
	}
	days := make([]int, nd)
	for i := range days {
		days[i] = o.BaseDay + rapid.IntRange(0, win-1).Draw(t, label+".day")
	}
	if o.Sorted {
		for i := 1; i < len(days); i++ {
			for j := i; j > 0 && days[j] < days[j-1]; j-- {
				days[j], days[j-1] = days[j-1], days[j]
			}
		}
	}
	recs := make([]vRec, nd)
	for i := range recs {
		ne := rapid.IntRange(0, o.MaxEntries).Draw(t, label+".nent")
		if !o.NoLongDays && o.MaxEntries > 0 && rapid.IntRange(0, 19).Draw(t, label+".longday") == 0 {
			ne = rapid.IntRange(17, 80).Draw(t, label+".nentlong") // days longer than any small-size fast path
		}
		var lines []vLine
		for k := 0; k < ne; k++ {
			var nm string
			if len(lines) > 0 && rapid.IntRange(0, 4).Draw(t, label+".dup") == 0 {
				nm = lines[rapid.IntRange(0, len(lines)-1).Draw(t, label+".dupi")].Name
			} else {
				nm = o.Foods[rapid.IntRange(0, len(o.Foods)-1).Draw(t, label+".food")]
			}
			var num string
			switch {
			case o.AnyNum:
				num = vGenNumAny(t, label+".q")
			case o.Exact:
				num = vGenQtyExact(t, label+".q")
			default:
				num = vGenNumDecimal(t, label+".q")
			}
			lines = append(lines, vLine{Kind: vkEntry, Name: nm, Num: num, L: vGenEntryLayout(t, o.Layout, label+".el")})
			// one entry in 12 is followed by its exact cancellation, and then often by a third mention of the food
			if rapid.IntRange(0, 11).Draw(t, label+".cancel") == 0 {
				neg := "-" + num
				if strings.HasPrefix(num, "-") {
					neg = num[1:]
				} else if strings.HasPrefix(num, "+") {
					neg = "-" + num[1:]
				}
				lines = append(lines, vLine{Kind: vkEntry, Name: nm, Num: neg, L: vGenEntryLayout(t, o.Layout, label+".el")})
				if rapid.Bool().Draw(t, label+".third") {
					third := "1"
					if !o.Exact {
						third = vGenNumDecimal(t, label+".q3")
					}
					lines = append(lines, vLine{Kind: vkEntry, Name: nm, Num: third, L: vGenEntryLayout(t, o.Layout, label+".el")})
				}
			}
		}
		recs[i] = vRec{Head: vFmtDay(days[i], o.DateLayout), HL: vGenHeadLayout(t, o.Layout, label+".hl"), Lines: lines}
	}
	d := vDoc{Recs: recs}
	vDecorate(t, &d, o.Layout, o.Notes, label+".deco")
	return d, days
}

// vGenZoneHead renders a record heading for the layout "2006-01-02 15:04 -0700": a time of day (often within an hour or
// two of midnight) and a numeric UTC offset. The calendar day the record is logged under is the one written.
var vZoneOffsets = []string{"+0000", "+0200", "-0700", "+0530", "+1300", "-1100", "+0545", "-0330", "+1400", "-1200"}

func vGenZoneHead(t *rapid.T, day int, label string) string {
	mins := rapid.IntRange(0, 1439).Draw(t, label+".minutes")
	if rapid.Bool().Draw(t, label+".nearmidnight") {
		mins = []int{0, 1, 29, 30, 59, 75, 119, 1320, 1380, 1410, 1438, 1439}[rapid.IntRange(0, 11).Draw(t, label+".nm")]
	}
	off := vZoneOffsets[rapid.IntRange(0, len(vZoneOffsets)-1).Draw(t, label+".off")]
	return fmt.Sprintf("%s %02d:%02d %s", vFmtDay(day, "2006-01-02"), mins/60, mins%60, off)
}
