//go:build go1.21

package main

// Bulk inputs for C13 and C03: books of 120 000 recipes and logs of 120 000 different foods, built from a seed. Every
// name is different, so whatever a command keys by a short digest of a name (a memo, an interning table, a de-duplication
// set) meets its first collisions at this size; the oracle is the construction itself.

import (
	"fmt"
	"sort"
	"strings"
	"testing"
)

type vBulkCase struct {
	Seed uint64 `json:"seed"`
	N    int    `json:"n"`
}

type vBulkBook struct {
	text     string
	heads    []string            // declaration order
	entries  map[string][][2]any // head -> (name, integer value) in file order
	resolved map[string]map[string]int
}

func vBulkName(s *uint64, segs int) string {
	parts := make([]string, segs)
	for i := range parts {
		parts[i] = c04BulkWord(s, 2, 6)
	}
	return strings.Join(parts, "/")
}

// vMakeBulkBook: n recipes with different names; each has two basic elements (names drawn from a pool of 2000) and, one
// in eight, a reference to an earlier recipe without references (coefficient 2): nesting depth 2.
func vMakeBulkBook(seed uint64, n int) vBulkBook {
	s := seed
	b := vBulkBook{entries: map[string][][2]any{}, resolved: map[string]map[string]int{}}
	pool := make([]string, 2000)
	seenEl := map[string]bool{}
	for i := range pool {
		w := "el " + c04BulkWord(&s, 3, 8)
		for seenEl[w] {
			w += "x"
		}
		seenEl[w] = true
		pool[i] = w
	}
	var sb strings.Builder
	var flat []string // recipes without references
	for len(b.heads) < n {
		h := vBulkName(&s, 1+int(vSplitMix(s)%3)) + fmt.Sprintf(" %d", len(b.heads)%7)
		if _, dup := b.entries[h]; dup {
			continue
		}
		res := map[string]int{}
		var ents [][2]any
		sb.WriteString(h + ":\n")
		for k := 0; k < 2; k++ {
			s = vSplitMix(s)
			el := pool[s%uint64(len(pool))]
			v := int(s>>20%40) - 10
			ents = append(ents, [2]any{el, v})
			res[el] += v
			fmt.Fprintf(&sb, "  %s: %d\n", el, v)
		}
		s = vSplitMix(s)
		if len(flat) > 0 && s%8 == 0 {
			ref := flat[(s>>8)%uint64(len(flat))]
			ents = append(ents, [2]any{ref, 2})
			fmt.Fprintf(&sb, "  %s: 2\n", ref)
			for el, v := range b.resolved[ref] {
				res[el] += 2 * v
			}
		} else {
			flat = append(flat, h)
		}
		b.heads = append(b.heads, h)
		b.entries[h] = ents
		b.resolved[h] = res
	}
	b.text = sb.String()
	return b
}

func vBulkLines(out string) []string {
	if out == "" {
		return nil
	}
	return strings.Split(strings.TrimSuffix(out, "\n"), "\n")
}

// the names contain no comma and no quote: a CSV row is name,name,value
func checkC13Bulk(c vBulkCase, ctx *vCtx) *vFailure {
	b := vMakeBulkBook(c.Seed, c.N)
	bp := vWriteFile("c13-bulk-book.yaml", b.text)
	// log: every recipe logged once, 50 per day
	var lb strings.Builder
	type lrow struct {
		day  int
		name string
		q    int
	}
	var lrows []lrow
	for i, h := range b.heads {
		if i%50 == 0 {
			lb.WriteString(vFmtDay(i/50, "") + ":\n")
		}
		q := i%9 + 1
		fmt.Fprintf(&lb, "  %s: %d\n", h, q)
		lrows = append(lrows, lrow{i / 50, h, q})
	}
	lp := vWriteFile("c13-bulk-log.yaml", lb.String())
	ctx.NonTrivial(true)
	ctx.Labelf("recipes=%d", c.N)
	run := func(args ...string) []string {
		r := vRunApp(vInvocation{Args: append([]string{"--today", vToday, "-d", bp, "-l", lp}, args...)})
		ctx.Run(1)
		if r.Failed {
			vViolate("C13 bulk: %v failed on valid input: %s", args, vTrunc(r.String(), 600))
		}
		return vBulkLines(r.Stdout)
	}
	// raw export: one row per entry in file order
	rows := run("csv", "database")
	i := 0
	for _, h := range b.heads {
		for _, e := range b.entries[h] {
			want := fmt.Sprintf("%s,%s,%d.00", h, e[0], e[1])
			if i >= len(rows) || rows[i] != want {
				got := "<missing>"
				if i < len(rows) {
					got = rows[i]
				}
				return vFailf("csv database of a book of %d recipes: row %d is %q, expected %q", c.N, i+1, got, want)
			}
			i++
		}
	}
	if i != len(rows) {
		return vFailf("csv database of a book of %d recipes: %d rows, %d expected", c.N, len(rows), i)
	}
	// resolved export: one row per (recipe, resolved element), sorted by recipe then element
	rows = run("csv", "database-resolved")
	hs := append([]string{}, b.heads...)
	sort.Strings(hs)
	i = 0
	for _, h := range hs {
		for _, el := range vSortedKeys(b.resolved[h]) {
			want := fmt.Sprintf("%s,%s,%d.00", h, el, b.resolved[h][el])
			if i >= len(rows) || rows[i] != want {
				got := "<missing>"
				if i < len(rows) {
					got = rows[i]
				}
				return vFailf("csv database-resolved of a book of %d recipes: row %d is %q, expected %q", c.N, i+1, got, want)
			}
			i++
		}
	}
	if i != len(rows) {
		return vFailf("csv database-resolved of a book of %d recipes: %d rows, %d expected", c.N, len(rows), i)
	}
	// log export: one row per (day, food) in file order
	rows = run("csv", "log")
	if len(rows) != len(lrows) {
		return vFailf("csv log of %d entries: %d rows", len(lrows), len(rows))
	}
	for k, w := range lrows {
		want := fmt.Sprintf("%s,%s,%d.000", vFmtDay(w.day, "2006-01-02"), w.name, w.q)
		if rows[k] != want {
			return vFailf("csv log of %d different foods: row %d is %q, expected %q", len(lrows), k+1, rows[k], want)
		}
	}
	return nil
}

func checkC03Bulk(c vBulkCase, ctx *vCtx) *vFailure {
	s := c.Seed
	// n different three-segment paths; quantities 1..9; four days
	amounts := map[string]int{} // every prefix path -> sum
	leaves := map[string]int{}
	var lb strings.Builder
	n := 0
	for n < c.N {
		if n%(c.N/4+1) == 0 {
			lb.WriteString(vFmtDay(n/(c.N/4+1), "") + ":\n")
		}
		p := vBulkName(&s, 3)
		if _, dup := leaves[p]; dup {
			continue
		}
		s = vSplitMix(s)
		q := int(s%9) + 1
		leaves[p] = q
		segs := strings.Split(p, "/")
		for k := 1; k <= len(segs); k++ {
			amounts[strings.Join(segs[:k], "/")] += q
		}
		fmt.Fprintf(&lb, "  %s: %d\n", p, q)
		n++
	}
	lp := vWriteFile("c03-bulk-log.yaml", lb.String())
	bp := vWriteFile("c03-bulk-book.yaml", "unused:\n  x: 1\n")
	ctx.NonTrivial(true)
	ctx.Labelf("foods=%d", c.N)
	run := func(args ...string) string {
		r := vRunApp(vInvocation{Args: append([]string{"--today", vToday, "-d", bp, "-l", lp}, args...)})
		ctx.Run(1)
		if r.Failed {
			vViolate("C03 bulk: %v failed on valid input: %s", args, vTrunc(r.String(), 600))
		}
		return r.Stdout
	}
	bal := vReadBalance(run("bal"), false)
	if len(bal.Rows) != len(amounts) {
		return vFailf("bal of a log with %d different foods: %d rows, %d category paths expected", c.N, len(bal.Rows), len(amounts))
	}
	seen := map[string]bool{}
	var prev []string
	for _, r := range bal.Rows {
		w, ok := amounts[r.Path]
		if !ok || seen[r.Path] {
			return vFailf("bal of a log with %d different foods: row %q (path %q) is not a category path of the log, or shown twice", c.N, r.Name, r.Path)
		}
		seen[r.Path] = true
		if r.Val != fmt.Sprintf("%d.00", w) {
			return vFailf("bal of a log with %d different foods: %q shows %s, expected %d.00", c.N, r.Path, r.Val, w)
		}
		// depth-first with sorted siblings = the rows' segment lists in lexicographic order
		cur := strings.Split(r.Path, "/")
		if prev != nil {
			less := false
			for k := 0; k < len(prev) && k < len(cur); k++ {
				if prev[k] != cur[k] {
					less = prev[k] < cur[k]
					break
				}
				if k == len(prev)-1 && len(cur) > len(prev) {
					less = true
				}
			}
			if !less {
				return vFailf("bal of a log with %d different foods: %q is shown after %q (siblings sorted by name, children below their parent)", c.N, r.Path, strings.Join(prev, "/"))
			}
		}
		prev = cur
	}
	// quantity per food: every food once
	q := vReadValName(run("report", "quantity"))
	if len(q) != len(leaves) {
		return vFailf("report quantity of a log with %d different foods: %d rows", c.N, len(q))
	}
	for _, r := range q {
		w, ok := leaves[r.Name]
		if !ok || r.Val != fmt.Sprintf("%d.00", w) {
			return vFailf("report quantity of a log with %d different foods: row (%s, %q), expected %d.00", c.N, r.Val, r.Name, w)
		}
		delete(leaves, r.Name)
	}
	return nil
}

func init() {
	vRegister("C13", "c13.bulk", checkC13Bulk)
	vRegister("C03", "c03.bulk", checkC03Bulk)
}

func TestVerifC13Bulk(t *testing.T) {
	n := vPick(4, 32)
	vEnum(t, "C13", "c13.bulk",
		"books of 120 000 recipes with pairwise different names (two basic elements each, one in eight also a reference to an earlier recipe) and a log that uses every recipe once; csv database, csv database-resolved and csv log compared row by row with the construction",
		fmt.Sprintf("%d books", n), n, func(i int) vBulkCase {
			return vBulkCase{Seed: uint64(vSeedBase)*2000003 + uint64(i)*104729 + 7, N: 120000}
		}, checkC13Bulk)
}

func TestVerifC03Bulk(t *testing.T) {
	n := vPick(4, 32)
	vEnum(t, "C03", "c03.bulk",
		"logs of 120 000 different three-segment food paths; bal shows every category path once, sorted, with the sum of what lies below it, and report quantity every food once",
		fmt.Sprintf("%d logs", n), n, func(i int) vBulkCase {
			return vBulkCase{Seed: uint64(vSeedBase)*3000017 + uint64(i)*7919 + 3, N: 120000}
		}, checkC03Bulk)
}
