//go:build go1.21

package main

// Output readers: turn the text of a report into records. Each reader is
// written against the format strings of the report and must account for every
// byte. On the unchanged tree every report of the generated domain is readable (hundreds of thousands of cases in the
// thorough tier); a report that cannot be read is therefore reported as a failure of the case (the report is not what
// the property describes), with the offending line in the message.

import (
	"regexp"
	"strings"
)

var vAnsiRe = regexp.MustCompile("\x1b\\[[0-9;]*m")

func vStripAnsi(s string) string { return vAnsiRe.ReplaceAllString(s, "") }

func vLines(s string) []string {
	if s == "" {
		return nil
	}
	if !strings.HasSuffix(s, "\n") {
		vViolate("output does not end with a newline: %q", vTrunc(s, 300))
	}
	return strings.Split(strings.TrimSuffix(s, "\n"), "\n")
}

const vNumPat = `-?\d+\.\d\d`

// ---------------------------------------------------------------------------
// register (default template and old reporter share the layout)

type vRegIng struct{ Name, Val string }
type vRegFood struct {
	Name, Val string
	Ingrs     []vRegIng
}
type vRegTotal struct{ Name, Pos, Neg, Sum string }
type vRegDay struct {
	Date        string
	Foods       []vRegFood
	Totals      []vRegTotal
	TotalHeader bool
}

var (
	vRegFoodRe   = regexp.MustCompile(`^\t(\S(?:.*\S)?) +: *(` + vNumPat + `)$`)
	vRegIngRe    = regexp.MustCompile(`^\t\t *(\S(?:.*\S)?) +(` + vNumPat + `)$`)
	vRegTotalRe  = regexp.MustCompile(`^\t\t *(\S(?:.*\S)?) +(` + vNumPat + `) +(` + vNumPat + `) = *(` + vNumPat + `)$`)
	vRegHeaderRe = regexp.MustCompile(`^\t-- TOTAL +-+$`)
)

func vReadRegister(out string) []vRegDay {
	var days []vRegDay
	var cur *vRegDay
	inTotals := false
	for _, ln := range vLines(vStripAnsi(out)) {
		switch {
		case !strings.HasPrefix(ln, "\t"):
			days = append(days, vRegDay{Date: ln})
			cur = &days[len(days)-1]
			inTotals = false
		case cur == nil:
			vViolate("register: row before any date line: %q", ln)
		case vRegHeaderRe.MatchString(ln):
			if cur.TotalHeader {
				vViolate("register: two TOTAL headers in one day")
			}
			cur.TotalHeader = true
			inTotals = true
		case strings.HasPrefix(ln, "\t\t"):
			if inTotals {
				m := vRegTotalRe.FindStringSubmatch(ln)
				if m == nil {
					vViolate("register: unreadable total row %q", ln)
				}
				cur.Totals = append(cur.Totals, vRegTotal{m[1], m[2], m[3], m[4]})
			} else {
				m := vRegIngRe.FindStringSubmatch(ln)
				if m == nil || len(cur.Foods) == 0 {
					vViolate("register: unreadable ingredient row %q", ln)
				}
				f := &cur.Foods[len(cur.Foods)-1]
				f.Ingrs = append(f.Ingrs, vRegIng{m[1], m[2]})
			}
		default:
			m := vRegFoodRe.FindStringSubmatch(ln)
			if m == nil || inTotals {
				vViolate("register: unreadable food row %q", ln)
			}
			cur.Foods = append(cur.Foods, vRegFood{Name: m[1], Val: m[2]})
		}
	}
	return days
}

// left-aligned template
var (
	vLAFoodRe   = regexp.MustCompile(`^   *(` + vNumPat + `)  (\S(?:.*\S)?)$`)
	vLAIngRe    = regexp.MustCompile(`^   *(` + vNumPat + `)    (\S(?:.*\S)?)$`)
	vLATotalRe  = regexp.MustCompile(`^   *(` + vNumPat + `) +(` + vNumPat + `) = +(` + vNumPat + `)  (\S(?:.*\S)?)$`)
	vLAHeaderRe = regexp.MustCompile(`^-+ TOTAL -+$`)
)

func vReadRegisterLA(out string) []vRegDay {
	var days []vRegDay
	var cur *vRegDay
	inTotals := false
	for _, ln := range vLines(vStripAnsi(out)) {
		switch {
		case vLAHeaderRe.MatchString(ln):
			if cur == nil || cur.TotalHeader {
				vViolate("register(left-aligned): misplaced TOTAL header")
			}
			cur.TotalHeader = true
			inTotals = true
		case !strings.HasPrefix(ln, "  "):
			days = append(days, vRegDay{Date: ln})
			cur = &days[len(days)-1]
			inTotals = false
		case cur == nil:
			vViolate("register(left-aligned): row before any date line: %q", ln)
		case inTotals:
			m := vLATotalRe.FindStringSubmatch(ln)
			if m == nil {
				vViolate("register(left-aligned): unreadable total row %q", ln)
			}
			cur.Totals = append(cur.Totals, vRegTotal{m[4], m[1], m[2], m[3]})
		default:
			if m := vLAIngRe.FindStringSubmatch(ln); m != nil {
				if len(cur.Foods) == 0 {
					vViolate("register(left-aligned): ingredient before food: %q", ln)
				}
				f := &cur.Foods[len(cur.Foods)-1]
				f.Ingrs = append(f.Ingrs, vRegIng{m[2], m[1]})
			} else if m := vLAFoodRe.FindStringSubmatch(ln); m != nil {
				cur.Foods = append(cur.Foods, vRegFood{Name: m[2], Val: m[1]})
			} else {
				vViolate("register(left-aligned): unreadable row %q", ln)
			}
		}
	}
	return days
}

// ---------------------------------------------------------------------------
// summary

type vSumRow struct{ Val, Name string }
type vSumDay struct {
	Date   string
	Totals []vSumRow
	Foods  []vSumRow
}

var vSumRowRe = regexp.MustCompile(`^ *(` + vNumPat + `) : (\S(?:.*\S)?)$`)

func vReadSummary(out string) []vSumDay {
	var days []vSumDay
	var cur *vSumDay
	after := false
	for _, ln := range vLines(vStripAnsi(out)) {
		if strings.HasSuffix(ln, " :") && !vSumRowRe.MatchString(ln) {
			days = append(days, vSumDay{Date: strings.TrimSuffix(ln, " :")})
			cur = &days[len(days)-1]
			after = false
			continue
		}
		if cur == nil {
			vViolate("summary: row before any date line: %q", ln)
		}
		if ln == "------------" {
			if after {
				vViolate("summary: two separators in one day")
			}
			after = true
			continue
		}
		m := vSumRowRe.FindStringSubmatch(ln)
		if m == nil {
			vViolate("summary: unreadable row %q", ln)
		}
		if after {
			cur.Foods = append(cur.Foods, vSumRow{m[1], m[2]})
		} else {
			cur.Totals = append(cur.Totals, vSumRow{m[1], m[2]})
		}
	}
	return days
}

// ---------------------------------------------------------------------------
// balance

type vBalRow struct {
	Val   string
	Depth int
	Name  string // as displayed (may contain "/" in collapse modes)
	Path  string // full path: displayed names joined along the indentation
}
type vBalOut struct {
	Rows     []vBalRow
	HasTotal bool
	Total    string
	TotalOf  string
}

// a displayed name may start with one blank (a path segment written " b" after
// the separator) and may end with one: the indentation is two blanks per level,
// an odd count means the name itself starts with a blank.
var vBalRowRe = regexp.MustCompile(`^ *(` + vNumPat + `) \| ( *)(\S.*)$`)

var vBalEmptyRowRe = regexp.MustCompile(`^ *(` + vNumPat + `) \| ( *)$`)

func vReadBalance(out string, single bool) vBalOut {
	var b vBalOut
	lines := vLines(out)
	if single {
		if len(lines) < 2 || lines[len(lines)-2] != strings.Repeat("-", 11)+"|" {
			vViolate("balance -s: missing total separator in %q", vTrunc(out, 400))
		}
		m := vBalRowRe.FindStringSubmatch(lines[len(lines)-1])
		if m == nil || len(m[2]) > 1 {
			vViolate("balance -s: unreadable total row %q", lines[len(lines)-1])
		}
		b.HasTotal, b.Total, b.TotalOf = true, m[1], m[2]+m[3]
		lines = lines[:len(lines)-2]
	}
	var stack []string
	for _, ln := range lines {
		m := vBalRowRe.FindStringSubmatch(ln)
		if m == nil {
			// an empty path segment ("a//b", "/a", "a/"): the row ends after its indentation
			if e := vBalEmptyRowRe.FindStringSubmatch(ln); e != nil && len(e[2])%2 == 0 {
				m = []string{ln, e[1], e[2], ""}
			}
		}
		if m == nil {
			vViolate("balance: unreadable row %q", ln)
		}
		depth := len(m[2]) / 2
		name := m[3]
		if len(m[2])%2 == 1 {
			name = " " + name
		}
		if depth > len(stack) {
			vViolate("balance: row %q is indented deeper than its predecessor allows", ln)
		}
		stack = append(stack[:depth], name)
		b.Rows = append(b.Rows, vBalRow{Val: m[1], Depth: depth, Name: name, Path: strings.Join(stack, "/")})
	}
	return b
}

// ---------------------------------------------------------------------------
// value<TAB>name reports (report quantity, report element-total, reg -s -g)

type vValName struct{ Val, Name string }

var vTabRowRe = regexp.MustCompile(`^ *(` + vNumPat + `)\t(.+)$`)

func vReadValName(out string) []vValName {
	var rows []vValName
	for _, ln := range vLines(out) {
		m := vTabRowRe.FindStringSubmatch(ln)
		if m == nil {
			vViolate("unreadable value/name row %q", ln)
		}
		rows = append(rows, vValName{m[1], m[2]})
	}
	return rows
}

// report totals
type vTotRow struct{ Pos, Neg, Sum, Name string }

var vTotRowRe = regexp.MustCompile(`^ *(` + vNumPat + `) +(` + vNumPat + `) +(` + vNumPat + `)  (.+)$`)

func vReadTotals(out string) []vTotRow {
	lines := vLines(out)
	if len(lines) == 0 {
		return nil
	}
	if strings.Join(strings.Fields(lines[0]), " ") != "positive negative sum element" {
		vViolate("report totals: unexpected header %q", lines[0])
	}
	var rows []vTotRow
	for _, ln := range lines[1:] {
		m := vTotRowRe.FindStringSubmatch(ln)
		if m == nil {
			vViolate("report totals: unreadable row %q", ln)
		}
		rows = append(rows, vTotRow{m[1], m[2], m[3], m[4]})
	}
	return rows
}

// reg -s X : "date name pos neg =sum"
type vSingleRow struct{ Date, Name, Pos, Neg, Sum string }

func vReadSingle(out string, name string) []vSingleRow {
	re := regexp.MustCompile(`^(\S.*?) +` + regexp.QuoteMeta(name) + ` +(` + vNumPat + `) +(` + vNumPat + `) = *(` + vNumPat + `)$`)
	var rows []vSingleRow
	for _, ln := range vLines(out) {
		m := re.FindStringSubmatch(ln)
		if m == nil {
			vViolate("reg -s: unreadable row %q", ln)
		}
		rows = append(rows, vSingleRow{m[1], name, m[2], m[3], m[4]})
	}
	return rows
}

// reg -f P : "date\tname\tvalue"
type vFoodLine struct{ Date, Name, Val string }

func vReadSingleFood(out string) []vFoodLine {
	var rows []vFoodLine
	for _, ln := range vLines(out) {
		parts := strings.Split(ln, "\t")
		if len(parts) != 3 || !regexp.MustCompile(`^`+vNumPat+`$`).MatchString(parts[2]) {
			vViolate("reg -f: unreadable row %q", ln)
		}
		rows = append(rows, vFoodLine{parts[0], parts[1], parts[2]})
	}
	return rows
}

// ---------------------------------------------------------------------------
// print normal form

type vPrintDay struct {
	Date  string
	Notes []vPNote
	Foods []vValName // Name, Val
}

var vPrintEntryRe = regexp.MustCompile(`^  - (.+): (` + vNumPat + `)$`)

// vReadPrint reads the normal form that `print` emits:
//
//	DATE:\n  # name: value | # text\n  - name: v\n\n
func vReadPrint(out string) []vPrintDay {
	var days []vPrintDay
	var cur *vPrintDay
	lines := vLines(out)
	for i := 0; i < len(lines); i++ {
		ln := lines[i]
		switch {
		case ln == "":
			if cur == nil {
				vViolate("print: blank line before any day")
			}
			cur = nil
		case strings.HasPrefix(ln, "  # "):
			if cur == nil || len(cur.Foods) > 0 {
				vViolate("print: misplaced note %q", ln)
			}
			body := ln[4:]
			if k := strings.Index(body, ": "); k >= 0 {
				cur.Notes = append(cur.Notes, vPNote{body[:k], body[k+2:]})
			} else {
				cur.Notes = append(cur.Notes, vPNote{"", body})
			}
		case strings.HasPrefix(ln, "  - "):
			m := vPrintEntryRe.FindStringSubmatch(ln)
			if m == nil || cur == nil {
				vViolate("print: unreadable entry %q", ln)
			}
			cur.Foods = append(cur.Foods, vValName{m[2], m[1]})
		case strings.HasSuffix(ln, ":") && !strings.HasPrefix(ln, " "):
			if cur != nil {
				vViolate("print: day %q starts before the previous block ended", ln)
			}
			days = append(days, vPrintDay{Date: strings.TrimSuffix(ln, ":")})
			cur = &days[len(days)-1]
		default:
			vViolate("print: unreadable line %q", ln)
		}
	}
	if cur != nil {
		vViolate("print: last block is not terminated by a blank line")
	}
	return days
}

// ---------------------------------------------------------------------------
// stats

type vStatsOut struct {
	DbFile, LogFile       string
	DbRecords, LogRecords string
	Today                 string
	First, FirstAgo       string
	Last, LastAgo         string
}

var vStatsAgoRe = regexp.MustCompile(`^(.*) \((-?\d+) days ago\)$`)

func vReadStats(out string) vStatsOut {
	var s vStatsOut
	lines := vLines(out)
	if len(lines) != 8 || lines[2] != "" {
		vViolate("stats: unexpected shape %q", out)
	}
	get := func(ln, label string) string {
		p := "  " + label
		if !strings.HasPrefix(ln, p) {
			vViolate("stats: expected %q in %q", label, ln)
		}
		return strings.TrimLeft(ln[len(p):], " ")
	}
	s.DbFile = get(lines[0], "Database file:")
	s.DbRecords = get(lines[1], "Database records:")
	s.LogFile = get(lines[3], "Log file:")
	s.LogRecords = get(lines[4], "Log records:")
	s.Today = get(lines[5], "Today:")
	f := vStatsAgoRe.FindStringSubmatch(get(lines[6], "First record:"))
	l := vStatsAgoRe.FindStringSubmatch(get(lines[7], "Last record:"))
	if f == nil || l == nil {
		vViolate("stats: unreadable first/last rows in %q", out)
	}
	s.First, s.FirstAgo, s.Last, s.LastAgo = f[1], f[2], l[1], l[2]
	return s
}
