//go:build go1.21

package main

// Shared machinery of the /verif checks. This file (like every verif_*_test.go)
// is overlaid into /repo/cmd/hranoprovod-cli by /verif/bin/check; it is never
// copied into the repository.

import (
	"bytes"
	"crypto/sha256"
	"encoding/hex"
	"encoding/json"
	"flag"
	"fmt"
	"hash/fnv"
	"io"
	"os"
	"os/exec"
	"path/filepath"
	"runtime/debug"
	"sort"
	"strconv"
	"strings"
	"sync"
	"testing"
	"time"

	"github.com/urfave/cli/v2"
	"pgregory.net/rapid"
)

// ---------------------------------------------------------------------------
// environment

var (
	vOutDir   = os.Getenv("VERIF_OUT") // where stats.json / fail-*.json go
	vTier     = vEnvDefault("VERIF_TIER", "quick")
	vShard    = vEnvInt("VERIF_SHARD", 0)
	vNShards  = vEnvInt("VERIF_NSHARDS", 1)
	vSeedBase = vEnvInt64("VERIF_SEED", 1)
	vRealBin  = os.Getenv("VERIF_BIN")     // real hranoprovod-cli binary (built by the driver)
	vScratch  = os.Getenv("VERIF_SCRATCH") // private scratch directory of this shard
	vKnown    = vKnownSet(os.Getenv("VERIF_KNOWN"))
	vScale    = vEnvFloat("VERIF_SCALE", 1.0) // multiplies every case count (debugging)
)

func vEnvDefault(k, d string) string {
	if v := os.Getenv(k); v != "" {
		return v
	}
	return d
}
func vEnvInt(k string, d int) int {
	if v, err := strconv.Atoi(os.Getenv(k)); err == nil {
		return v
	}
	return d
}
func vEnvInt64(k string, d int64) int64 {
	if v, err := strconv.ParseInt(os.Getenv(k), 10, 64); err == nil {
		return v
	}
	return d
}
func vEnvFloat(k string, d float64) float64 {
	if v, err := strconv.ParseFloat(os.Getenv(k), 64); err == nil {
		return v
	}
	return d
}
func vKnownSet(s string) map[string]bool {
	m := map[string]bool{}
	for _, p := range strings.Split(s, ",") {
		if p = strings.TrimSpace(p); p != "" {
			m[p] = true
		}
	}
	return m
}

func vThorough() bool { return vTier == "thorough" }

// vBudget picks the per-tier total number of cases and divides it over shards.
func vBudget(quick, thorough int) int {
	n := quick
	if vThorough() {
		n = thorough
	}
	n = int(float64(n) * vScale)
	per := (n + vNShards - 1) / vNShards
	if per < 1 {
		per = 1
	}
	return per
}

// vPick returns q in the quick tier, th in the thorough tier.
func vPick(q, th int) int {
	if vThorough() {
		return th
	}
	return q
}

// ---------------------------------------------------------------------------
// seeds

func vSplitMix(x uint64) uint64 {
	x += 0x9e3779b97f4a7c15
	z := x
	z = (z ^ (z >> 30)) * 0xbf58476d1ce4e5b9
	z = (z ^ (z >> 27)) * 0x94d049bb133111eb
	return z ^ (z >> 31)
}

func vSeedFor(name string) uint64 {
	h := fnv.New64a()
	h.Write([]byte(name))
	s := vSplitMix(uint64(vSeedBase) ^ vSplitMix(h.Sum64()) ^ vSplitMix(uint64(vShard)+0x1234567))
	s &= 0x7fffffffffffffff
	return s | 1 // rapid treats 0 as "random"
}

// ---------------------------------------------------------------------------
// failures

type vFailure struct {
	Msg       string
	Signature string // optional: names the call site / input class for known_findings.json
}

func vFailf(format string, a ...interface{}) *vFailure {
	return &vFailure{Msg: fmt.Sprintf(format, a...)}
}
func vFailSig(sig string, format string, a ...interface{}) *vFailure {
	return &vFailure{Msg: fmt.Sprintf(format, a...), Signature: sig}
}

// vHarnessFault is thrown (as a panic) when the harness itself cannot do its
// job (unreadable output, I/O error on scratch files). It never becomes a
// VIOLATION; the driver maps it to exit status 2.
type vHarnessFault struct{ msg string }

func vFault(format string, a ...interface{}) {
	panic(vHarnessFault{fmt.Sprintf(format, a...)})
}

// vViolationPanic carries a property failure out of a nested helper (for instance "a command failed on valid generated
// input" seen inside a run closure); vCheckOne turns it into an ordinary failure of the case.
type vViolationPanic struct {
	msg string
	sig string
}

func vViolate(format string, a ...interface{}) {
	panic(vViolationPanic{msg: fmt.Sprintf(format, a...)})
}

type vFailFile struct {
	Property  string          `json:"property"`
	Kind      string          `json:"kind"`
	Message   string          `json:"message"`
	Signature string          `json:"signature,omitempty"`
	Seed      int64           `json:"seed"`
	Shard     int             `json:"shard"`
	Case      json.RawMessage `json:"case"`
}

// ---------------------------------------------------------------------------
// statistics (evidence)

type vStats struct {
	mu       sync.Mutex
	Property string                 `json:"property"`
	Tests    map[string]*vTestStats `json:"tests"`
	Faults   []string               `json:"faults"`
	Failures []string               `json:"failures"` // fail file names
	WallS    float64                `json:"wall_s"`
	Notes    []string               `json:"notes"`
	started  time.Time
}

type vTestStats struct {
	Kind        string            `json:"kind"`
	Rule        string            `json:"rule"`
	Requested   int               `json:"requested"`
	Evaluations int               `json:"evaluations"`
	Runs        int               `json:"program_runs"` // CLI/API invocations of the code under test
	NonTrivial  map[string]bool   `json:"-"`
	NTHashes    []string          `json:"nontrivial_hashes"`
	Labels      map[string]int    `json:"labels"`
	Excluded    map[string]int    `json:"excluded"`
	Samples     []json.RawMessage `json:"samples"`
	Exhaustive  bool              `json:"exhaustive"`
	Scope       string            `json:"scope,omitempty"`
	Failed      bool              `json:"failed"`
	Completed   bool              `json:"completed"`
}

var vAll = &vStats{Tests: map[string]*vTestStats{}, started: time.Now()}

func (s *vStats) test(kind string) *vTestStats {
	s.mu.Lock()
	defer s.mu.Unlock()
	ts := s.Tests[kind]
	if ts == nil {
		ts = &vTestStats{Kind: kind, NonTrivial: map[string]bool{}, Labels: map[string]int{}, Excluded: map[string]int{}}
		s.Tests[kind] = ts
	}
	return ts
}

func (s *vStats) dump() {
	if vOutDir == "" {
		return
	}
	s.mu.Lock()
	defer s.mu.Unlock()
	s.WallS = time.Since(s.started).Seconds()
	for _, ts := range s.Tests {
		ts.NTHashes = ts.NTHashes[:0]
		for h := range ts.NonTrivial {
			ts.NTHashes = append(ts.NTHashes, h)
		}
		sort.Strings(ts.NTHashes)
	}
	b, _ := json.Marshal(s)
	_ = os.WriteFile(filepath.Join(vOutDir, "stats.json"), b, 0o644)
}

// vAPIGuard: true when the function-level entry points are compiled in; otherwise the kind is recorded as not run.
func vAPIGuard(t *testing.T, kind string) bool {
	if vAPIAvailable {
		return true
	}
	ts := vAll.test(kind)
	vAll.mu.Lock()
	ts.Rule = "NOT RUN: the internal configuration structs of the tree under test differ from the ones verif_api_test.go was written for; the function-level entry points were left out of this build"
	ts.Labels["api-layer-unavailable"]++
	ts.Completed = true
	vAll.mu.Unlock()
	vAll.dump()
	t.Skip("api layer unavailable")
	return false
}

// vCtx is handed to every check function: it records what the case exercised.
type vCtx struct {
	ts     *vTestStats
	frozen bool // after the first failure (rapid is shrinking): do not count
	nt     bool
	labels []string
}

func (c *vCtx) NonTrivial(b bool) {
	if b {
		c.nt = true
	}
}
func (c *vCtx) Label(l string) { c.labels = append(c.labels, l) }
func (c *vCtx) Labelf(f string, a ...interface{}) {
	c.labels = append(c.labels, fmt.Sprintf(f, a...))
}
func (c *vCtx) Run(n int) {
	if !c.frozen {
		vAll.mu.Lock()
		c.ts.Runs += n
		vAll.mu.Unlock()
	}
}
func (c *vCtx) Excluded(sig string) {
	if !c.frozen {
		vAll.mu.Lock()
		c.ts.Excluded[sig]++
		vAll.mu.Unlock()
	}
}

func vHashJSON(b []byte) string {
	h := sha256.Sum256(b)
	return hex.EncodeToString(h[:8])
}

const vMaxSamples = 3

func (c *vCtx) commit(caseJSON []byte) {
	if c.frozen {
		return
	}
	vAll.mu.Lock()
	defer vAll.mu.Unlock()
	ts := c.ts
	ts.Evaluations++
	for _, l := range c.labels {
		ts.Labels[l]++
	}
	if c.nt {
		ts.NonTrivial[vHashJSON(caseJSON)] = true
		if len(ts.Samples) < vMaxSamples && len(caseJSON) < 6000 {
			ts.Samples = append(ts.Samples, json.RawMessage(append([]byte(nil), caseJSON...)))
		}
	}
}

// ---------------------------------------------------------------------------
// property registry + runners

type vReplayer func(raw json.RawMessage) *vFailure

var vReplayers = map[string]vReplayer{}
var vKindProperty = map[string]string{}

// vRegister makes a case kind replayable through `bin/check <ID> --replay FILE`.
func vRegister[C any](property, kind string, check func(c C, ctx *vCtx) *vFailure) {
	vKindProperty[kind] = property
	vReplayers[kind] = func(raw json.RawMessage) *vFailure {
		var c C
		dec := json.NewDecoder(bytes.NewReader(raw))
		if err := dec.Decode(&c); err != nil {
			vFault("replay: cannot decode case of kind %s: %v", kind, err)
		}
		ctx := &vCtx{ts: &vTestStats{NonTrivial: map[string]bool{}, Labels: map[string]int{}, Excluded: map[string]int{}}, frozen: true}
		return check(c, ctx)
	}
}

func vSaveFailure(property, kind string, caseJSON []byte, f *vFailure) string {
	if vOutDir == "" {
		return ""
	}
	ff := vFailFile{Property: property, Kind: kind, Message: f.Msg, Signature: f.Signature, Seed: vSeedBase, Shard: vShard, Case: caseJSON}
	b, _ := json.MarshalIndent(ff, "", " ")
	name := filepath.Join(vOutDir, "fail-"+kind+".json")
	if err := os.WriteFile(name, b, 0o644); err != nil {
		vFault("cannot write failure file: %v", err)
	}
	return name
}

// vCheckOne runs check on c, converting harness faults into recorded faults.
func vCheckOne[C any](property, kind string, c C, ts *vTestStats, frozen bool, check func(c C, ctx *vCtx) *vFailure) (f *vFailure, fault bool) {
	ctx := &vCtx{ts: ts, frozen: frozen}
	caseJSON, err := json.Marshal(c)
	if err != nil {
		vFault("cannot marshal case: %v", err)
	}
	vWatchCurrent(property, kind, caseJSON)
	// journal the case so that a worker death is still attributable
	if vOutDir != "" && os.Getenv("VERIF_JOURNAL") != "" {
		_ = os.WriteFile(filepath.Join(vOutDir, "journal-"+kind+".json"), caseJSON, 0o644)
	}
	func() {
		defer func() {
			if r := recover(); r != nil {
				if vp, ok := r.(vViolationPanic); ok {
					f = &vFailure{Msg: vp.msg, Signature: vp.sig}
					return
				}
				if hf, ok := r.(vHarnessFault); ok {
					vAll.mu.Lock()
					vAll.Faults = append(vAll.Faults, kind+": "+hf.msg)
					vAll.mu.Unlock()
					if vOutDir != "" {
						_ = os.WriteFile(filepath.Join(vOutDir, "fault-"+kind+".json"), caseJSON, 0o644)
					}
					fault = true
					return
				}
				panic(r)
			}
		}()
		f = check(c, ctx)
	}()
	if fault {
		return nil, true
	}
	if f != nil && f.Signature != "" && vKnown[f.Signature] {
		// a listed known finding met outside its excluded class: count, do not report
		ctx.Excluded("known:" + f.Signature)
		f = nil
	}
	if f == nil {
		ctx.commit(caseJSON)
		return nil, false
	}
	vSaveFailure(property, kind, caseJSON, f)
	return f, false
}

// vRapid drives check over cases drawn by gen: n cases in this shard.
func vRapid[C any](t *testing.T, property, kind, rule string, n int, gen func(*rapid.T) C, check func(c C, ctx *vCtx) *vFailure) {
	ts := vAll.test(kind)
	ts.Rule = rule
	ts.Requested = n
	vAll.Property = property
	_ = flag.Set("rapid.checks", strconv.Itoa(n))
	_ = flag.Set("rapid.seed", strconv.FormatUint(vSeedFor(kind), 10))
	_ = flag.Set("rapid.nofailfile", "true")
	_ = flag.Set("rapid.shrinktime", "15s")
	if os.Getenv("VERIF_SHRINKTIME") != "" {
		_ = flag.Set("rapid.shrinktime", os.Getenv("VERIF_SHRINKTIME"))
	}
	failed := false
	rapid.Check(t, func(rt *rapid.T) {
		c := gen(rt)
		f, fault := vCheckOne(property, kind, c, ts, failed, check)
		if fault {
			rt.Skip("harness fault")
		}
		if f != nil {
			failed = true
			ts.Failed = true
			rt.Fatalf("%s", f.Msg)
		}
	})
	ts.Completed = !t.Failed()
	vAll.dump()
}

// vEnum drives check over an explicit finite enumeration. next is called with
// increasing indices until it reports done; this shard takes i % nshards == shard.
func vEnum[C any](t *testing.T, property, kind, rule, scope string, total int, at func(i int) C, check func(c C, ctx *vCtx) *vFailure) {
	ts := vAll.test(kind)
	ts.Rule = rule
	ts.Scope = scope
	vAll.Property = property
	req := 0
	for i := vShard; i < total; i += vNShards {
		req++
	}
	ts.Requested = req
	for i := vShard; i < total; i += vNShards {
		c := at(i)
		f, fault := vCheckOne(property, kind, c, ts, false, check)
		if fault {
			continue
		}
		if f != nil {
			ts.Failed = true
			vAll.dump()
			t.Fatalf("%s: case %d: %s", kind, i, f.Msg)
		}
	}
	ts.Exhaustive = true
	ts.Completed = true
	vAll.dump()
}

func TestMain(m *testing.M) {
	if vScratch != "" {
		_ = os.MkdirAll(vScratch, 0o755)
	}
	code := m.Run()
	vAll.dump()
	os.Exit(code)
}

// TestVerifReplay re-runs one saved case without the generator library.
func TestVerifReplay(t *testing.T) {
	path := os.Getenv("VERIF_REPLAY")
	if path == "" {
		t.Skip("VERIF_REPLAY not set")
	}
	b, err := os.ReadFile(path)
	if err != nil {
		t.Fatalf("HARNESS-FAULT cannot read %s: %v", path, err)
	}
	var ff vFailFile
	if err := json.Unmarshal(b, &ff); err != nil {
		t.Fatalf("HARNESS-FAULT cannot decode %s: %v", path, err)
	}
	rp := vReplayers[ff.Kind]
	if rp == nil {
		t.Fatalf("HARNESS-FAULT unknown case kind %q", ff.Kind)
	}
	var f *vFailure
	vWatchCurrent(ff.Property, ff.Kind, ff.Case)
	func() {
		defer func() {
			if r := recover(); r != nil {
				if vp, ok := r.(vViolationPanic); ok {
					f = &vFailure{Msg: vp.msg, Signature: vp.sig}
					return
				}
				if hf, ok := r.(vHarnessFault); ok {
					t.Fatalf("HARNESS-FAULT %s", hf.msg)
				}
				panic(r)
			}
		}()
		f = rp(ff.Case)
	}()
	res := map[string]interface{}{"property": ff.Property, "kind": ff.Kind, "failed": f != nil}
	if f != nil {
		res["message"] = f.Msg
		res["signature"] = f.Signature
	}
	if vOutDir != "" {
		rb, _ := json.Marshal(res)
		_ = os.WriteFile(filepath.Join(vOutDir, "replay-result.json"), rb, 0o644)
	}
	if f != nil {
		t.Fatalf("REPLAY-FAIL %s", f.Msg)
	}
}

// ---------------------------------------------------------------------------
// running the program in process

type vRun struct {
	Stdout string
	Stderr string
	Err    string // "" = nil error
	Failed bool   // returned error, panicked or exited non-zero
	Panic  string // recovered panic with stack ("" = none)
	Exit   int    // only for subprocess runs / cli.OsExiter
}

func (r vRun) String() string {
	return fmt.Sprintf("failed=%v err=%q panic=%q\nstdout:\n%s\nstderr:\n%s", r.Failed, r.Err, vTrunc(r.Panic, 1500), vTrunc(r.Stdout, 3000), vTrunc(r.Stderr, 1000))
}

func vTrunc(s string, n int) string {
	if len(s) <= n {
		return s
	}
	return s[:n] + fmt.Sprintf("…(%d bytes more)", len(s)-n)
}

type vInvocation struct {
	Args []string          `json:"args"`          // without argv[0]
	Env  map[string]string `json:"env,omitempty"` // HR_* variables (all others HR_* are unset)
	TZ   string            `json:"tz,omitempty"`  // IANA zone name, "" = UTC
	Cwd  string            `json:"-"`             // working directory ("" = unchanged)
}

var vHREnv = []string{"HR_DATABASE", "HR_LOGFILE", "HR_CONFIG", "HR_DATE_FORMAT", "HR_MAXDEPTH"}

var (
	vOutFile, vErrFile *os.File
	vZoneCache         = map[string]*time.Location{}
)

var vLocalUTC *time.Location

func vZone(name string) *time.Location {
	if name == "" || name == "UTC" {
		// a process started with TZ=UTC has time.Local pointing at its own location object named "UTC", not at
		// time.UTC itself (Time values compared with == or used as map keys tell the two apart): emulate that
		if vLocalUTC == nil {
			vLocalUTC = time.FixedZone("UTC", 0)
		}
		return vLocalUTC
	}
	if l, ok := vZoneCache[name]; ok {
		return l
	}
	l, err := time.LoadLocation(name)
	if err != nil {
		vFault("cannot load zone %s: %v", name, err)
	}
	vZoneCache[name] = l
	return l
}

var vScratchPerProcess = false

func vScratchDir() string {
	if vScratch != "" && !vScratchPerProcess {
		// native fuzzing runs many worker processes with the same environment: every process gets its own
		// scratch directory, otherwise the workers overwrite each other's input files
		vScratch = filepath.Join(vScratch, fmt.Sprintf("p%d", os.Getpid()))
		vScratchPerProcess = true
		if err := os.MkdirAll(vScratch, 0o755); err != nil {
			vFault("mkdir scratch: %v", err)
		}
	}
	if vScratch == "" {
		d, err := os.MkdirTemp("", "verif-scratch-")
		if err != nil {
			vFault("mkdtemp: %v", err)
		}
		vScratch = d
	}
	return vScratch
}

func vCaptureFiles() {
	if vOutFile == nil {
		var err error
		if vOutFile, err = os.CreateTemp(vScratchDir(), "stdout-"); err != nil {
			vFault("create capture file: %v", err)
		}
		if vErrFile, err = os.CreateTemp(vScratchDir(), "stderr-"); err != nil {
			vFault("create capture file: %v", err)
		}
	}
}

func vReadBack(f *os.File) string {
	if _, err := f.Seek(0, io.SeekStart); err != nil {
		vFault("seek capture: %v", err)
	}
	b, err := io.ReadAll(f)
	if err != nil {
		vFault("read capture: %v", err)
	}
	if err := f.Truncate(0); err != nil {
		vFault("truncate capture: %v", err)
	}
	if _, err := f.Seek(0, io.SeekStart); err != nil {
		vFault("seek capture: %v", err)
	}
	return string(b)
}

type vExitPanic struct{ code int }

// vRunApp calls the real GetApp().Run in this process with stdout/stderr
// captured, HR_* environment, time zone and working directory set for the run
// and restored afterwards. stdoutOverride (optional) replaces os.Stdout.
func vRunApp(inv vInvocation) vRun { return vRunAppTo(inv, nil) }

// vLocalChangedBy names the last in-process invocation that left time.Local pointing somewhere else than where it was
// when the invocation began ("" = none); checks that care reset and read it.
var vLocalChangedBy string

func vRunAppTo(inv vInvocation, stdoutOverride *os.File) (res vRun) {
	vWatchArm(vWatchLimit)
	defer vWatchDisarm()
	vCaptureFiles()
	oldOut, oldErr, oldLocal, oldExiter := os.Stdout, os.Stderr, time.Local, cli.OsExiter
	oldErrWriter := cli.ErrWriter
	oldEnv := map[string]*string{}
	for _, k := range vHREnv {
		if v, ok := os.LookupEnv(k); ok {
			vv := v
			oldEnv[k] = &vv
		} else {
			oldEnv[k] = nil
		}
		os.Unsetenv(k)
	}
	for k, v := range inv.Env {
		if _, known := oldEnv[k]; !known { // a variable outside the fixed list (discovered from the flag definitions)
			if ov, ok := os.LookupEnv(k); ok {
				vv := ov
				oldEnv[k] = &vv
			} else {
				oldEnv[k] = nil
			}
		}
		os.Setenv(k, v)
	}
	var oldCwd string
	if inv.Cwd != "" {
		oldCwd, _ = os.Getwd()
		if err := os.Chdir(inv.Cwd); err != nil {
			vFault("chdir %s: %v", inv.Cwd, err)
		}
	}
	os.Stdout = vOutFile
	if stdoutOverride != nil {
		os.Stdout = stdoutOverride
	}
	os.Stderr = vErrFile
	cli.ErrWriter = vErrFile
	runLocal := vZone(inv.TZ)
	time.Local = runLocal
	cli.OsExiter = func(code int) { panic(vExitPanic{code}) }
	defer func() {
		if time.Local != runLocal {
			// the process zone belongs to the process, not to one invocation: whoever calls the program again in the same
			// process (as this harness does) would see another zone than the environment says
			vLocalChangedBy = fmt.Sprintf("%q", inv.Args)
		}
		os.Stdout, os.Stderr, time.Local, cli.OsExiter = oldOut, oldErr, oldLocal, oldExiter
		cli.ErrWriter = oldErrWriter
		for k, v := range oldEnv {
			if v == nil {
				os.Unsetenv(k)
			} else {
				os.Setenv(k, *v)
			}
		}
		if oldCwd != "" {
			_ = os.Chdir(oldCwd)
		}
		res.Stdout = vReadBack(vOutFile)
		res.Stderr = vReadBack(vErrFile)
	}()
	func() {
		defer func() {
			if r := recover(); r != nil {
				if ep, ok := r.(vExitPanic); ok {
					res.Exit = ep.code
					res.Failed = ep.code != 0
					return
				}
				res.Panic = fmt.Sprintf("%v\n%s", r, debug.Stack())
				res.Failed = true
			}
		}()
		app := GetApp()
		argv := vSpellingVariant(inv.Args)
		// urfave/cli keeps its help commands in package-level variables and
		// mutates them when they run (`help help` makes the help command its own
		// sub-command). A real process runs one invocation and exits; here many
		// invocations share the process, so that library state is reset around
		// every run.
		defer vResetCLIGlobals(app)
		vResetKnownHelp()
		err := app.Run(append([]string{"hranoprovod-cli"}, argv...))
		if err != nil {
			res.Err = err.Error()
			res.Failed = true
		}
	}()
	return res
}

var vHelpCmds = map[*cli.Command]bool{}

func vResetKnownHelp() {
	for c := range vHelpCmds {
		c.Subcommands = nil
		c.Flags = nil
	}
}

// vAPICmd: an exported command function of an internal package behind one signature (see verif_api_test.go).
type vAPICmd struct {
	Name    string
	UsesLog bool
	UsesDB  bool
	Run     func(logR, dbR io.Reader, out io.Writer, x string) error
}

// ---------------------------------------------------------------------------
// watchdog for non-termination. Every in-process run of the program happens between vWatchArm and vWatchDisarm; a run
// that does not come back within the limit (typical run: milliseconds; the largest generated inputs: seconds) is
// recorded as a failure of the current case with the signature "<property>/hang" and the worker exits; the driver
// believes it only if the case, re-run alone in a fresh process, exceeds the limit three times in a row. A real-binary
// run that exceeds its timeout is reported through vHang with the same signature and the same confirmation.

var (
	vWatchMu       sync.Mutex
	vWatchProperty string
	vWatchKind     string
	vWatchCase     []byte
	vWatchDeadline time.Time
	vWatchArmed    bool
	vWatchOnce     sync.Once
	vWatchLimit    = 240 * time.Second
)

func vWatchCurrent(property, kind string, caseJSON []byte) {
	vWatchMu.Lock()
	vWatchProperty, vWatchKind, vWatchCase = property, kind, caseJSON
	vWatchMu.Unlock()
}

func vWatchArm(limit time.Duration) {
	vWatchOnce.Do(func() {
		go func() {
			for {
				time.Sleep(500 * time.Millisecond)
				vWatchMu.Lock()
				armed, dl, prop, kind, cur := vWatchArmed, vWatchDeadline, vWatchProperty, vWatchKind, vWatchCase
				vWatchMu.Unlock()
				if !armed || !time.Now().After(dl) || prop == "" {
					continue
				}
				msg := "a run of the program did not terminate within its time limit (a typical run takes milliseconds)"
				if os.Getenv("VERIF_REPLAY") != "" && vOutDir != "" {
					rb, _ := json.Marshal(map[string]interface{}{"property": prop, "kind": kind, "failed": true, "signature": prop + "/hang", "message": msg})
					_ = os.WriteFile(filepath.Join(vOutDir, "replay-result.json"), rb, 0o644)
					os.Exit(3)
				}
				vSaveFailure(prop, kind, cur, &vFailure{Msg: msg, Signature: prop + "/hang"})
				vAll.dump()
				os.Exit(3)
			}
		}()
	})
	vWatchMu.Lock()
	vWatchArmed, vWatchDeadline = true, time.Now().Add(limit)
	vWatchMu.Unlock()
}

func vWatchDisarm() {
	vWatchMu.Lock()
	vWatchArmed = false
	vWatchMu.Unlock()
}

// vHang reports that a separate process running the program had to be killed at its timeout.
func vHang(format string, a ...interface{}) {
	vWatchMu.Lock()
	prop := vWatchProperty
	vWatchMu.Unlock()
	panic(vViolationPanic{msg: fmt.Sprintf(format, a...), sig: prop + "/hang"})
}

// vFlagInfo describes one option of the program as its own flag definitions declare it: the surface is read from
// the running program (GetApp()), so options added later are exercised without the harness naming them.
type vFlagInfo struct {
	Cmd  []string // command path ("" path = global option)
	Name string   // long name
	Bool bool
	Env  []string
}

var vSurfaceCache []vFlagInfo

func vSurface() []vFlagInfo {
	if vSurfaceCache != nil {
		return vSurfaceCache
	}
	app := GetApp()
	defer vResetCLIGlobals(app)
	var out []vFlagInfo
	add := func(path []string, fs []cli.Flag) {
		for _, f := range fs {
			names := f.Names()
			if len(names) == 0 {
				continue
			}
			name := names[0]
			for _, n := range names {
				if len(n) > len(name) {
					name = n
				}
			}
			fi := vFlagInfo{Cmd: append([]string{}, path...), Name: name}
			switch ff := f.(type) {
			case *cli.BoolFlag:
				fi.Bool = true
				fi.Env = ff.EnvVars
			case *cli.StringFlag:
				fi.Env = ff.EnvVars
			case *cli.IntFlag:
				fi.Env = ff.EnvVars
			}
			out = append(out, fi)
		}
	}
	add(nil, app.Flags)
	var walk func(path []string, cs []*cli.Command)
	walk = func(path []string, cs []*cli.Command) {
		for _, c := range cs {
			if c == nil || c.Name == "help" {
				continue
			}
			p := append(append([]string{}, path...), strings.Join(append([]string{c.Name}, c.Aliases...), "|")) // name and aliases
			add(p, c.Flags)
			walk(p, c.Subcommands)
		}
	}
	walk(nil, app.Commands)
	sort.SliceStable(out, func(i, j int) bool {
		a, b := strings.Join(out[i].Cmd, " ")+" --"+out[i].Name, strings.Join(out[j].Cmd, " ")+" --"+out[j].Name
		return a < b
	})
	vSurfaceCache = out
	return out
}

// vSurfaceBools: the boolean options that apply to an invocation of the command path (global ones and the command's own),
// as (where, spelling) pairs: where = "global" | "command" | "env".
type vBoolOpt struct {
	Where string
	Name  string // "--flag" or "ENV_NAME"
}

func vSurfaceBools(path []string) []vBoolOpt {
	var out []vBoolOpt
	for _, f := range vSurface() {
		if !f.Bool || f.Name == "help" || f.Name == "version" {
			continue
		}
		global := len(f.Cmd) == 0
		if !global {
			match := len(f.Cmd) == len(path)
			for i := 0; match && i < len(path); i++ {
				ok := false
				for _, alt := range strings.Split(f.Cmd[i], "|") {
					ok = ok || alt == path[i]
				}
				match = ok
			}
			if !match {
				continue
			}
		}
		w := "command"
		if global {
			w = "global"
		}
		out = append(out, vBoolOpt{w, "--" + f.Name})
		for _, e := range f.Env {
			out = append(out, vBoolOpt{"env", e})
		}
	}
	return out
}

func vResetCLIGlobals(app *cli.App) {
	seen := map[*cli.Command]bool{}
	var walk func(cs []*cli.Command)
	walk = func(cs []*cli.Command) {
		for _, c := range cs {
			if c == nil || seen[c] {
				continue
			}
			seen[c] = true
			if c.Name == "help" {
				vHelpCmds[c] = true
			}
			walk(c.Subcommands)
		}
	}
	walk(app.Commands)
	vResetKnownHelp()
}

// ---------------------------------------------------------------------------
// spelling variants of one invocation: command aliases (reg/register, bal/balance), short and long option names,
// "--opt value" and "--opt=value". Which spelling is used is a pure function of the argument list, so a case replays
// identically; the point is that every check exercises all documented spellings over its many cases.

var vGlobalValueFlags = map[string]string{"-b": "--begin", "-e": "--end", "-d": "--database", "-l": "--logfile", "-c": "--config",
	"--begin": "-b", "--end": "-e", "--database": "-d", "--logfile": "-l", "--config": "-c", "--today": "", "--date-format": "", "--maxdepth": ""}
var vGlobalBoolFlags = map[string]bool{"--no-color": true, "--no-database": true}
var vCmdAliases = map[string]string{"reg": "register", "register": "reg", "bal": "balance", "balance": "bal"}
var vSubValueFlags = map[string]map[string]string{
	"reg": {"-b": "--begin", "-e": "--end", "-f": "--single-food", "-s": "--single-element", "--begin": "-b", "--end": "-e", "--single-food": "-f", "--single-element": "-s", "--internal-template-name": ""},
	"bal": {"-b": "--begin", "-e": "--end", "-s": "--single-element", "--begin": "-b", "--end": "-e", "--single-element": "-s"},
}
var vSubBoolAliases = map[string]map[string]string{
	"reg": {"-g": "--group-food", "--group-food": "-g"},
	"bal": {"-c": "--collapse", "--collapse": "-c"},
}

func vSpellingVariant(args []string) []string {
	if os.Getenv("VERIF_NOALIAS") != "" {
		return args
	}
	h := fnv.New64a()
	for _, a := range args {
		h.Write([]byte(a))
		h.Write([]byte{0})
	}
	bits := vSplitMix(h.Sum64())
	next := func() bool { b := bits&1 == 1; bits = vSplitMix(bits); return b }
	out := make([]string, 0, len(args))
	i := 0
	// urfave/cli refuses "-d X --database Y": a flag that occurs twice keeps one spelling within the invocation
	swap := map[string]bool{}
	for _, a := range args { // a flag already written as --name=value somewhere keeps the long form everywhere
		if k := strings.Index(a, "="); k > 2 && strings.HasPrefix(a, "--") {
			swap[a[:k]] = false
		}
	}
	emit := func(name, alt string, val string, hasVal bool) {
		n := name
		if alt != "" {
			key := name
			if len(alt) > len(name) {
				key = alt // the long form names the flag
			}
			if _, seen := swap[key]; !seen {
				swap[key] = next()
			}
			if swap[key] == (name == key) { // swap[key] true = use the short form
				n = alt
			}
		}
		if hasVal && strings.HasPrefix(n, "--") && next() && val != "" {
			out = append(out, n+"="+val)
			return
		}
		out = append(out, n)
		if hasVal {
			out = append(out, val)
		}
	}
	// global part
	for i < len(args) {
		a := args[i]
		if alt, ok := vGlobalValueFlags[a]; ok && i+1 < len(args) {
			emit(a, alt, args[i+1], true)
			i += 2
			continue
		}
		if vGlobalBoolFlags[a] || (strings.HasPrefix(a, "--") && strings.Contains(a, "=")) {
			if k := strings.Index(a, "="); k > 0 {
				if alt, ok := vGlobalValueFlags[a[:k]]; ok { // "--database=X": remember that this flag keeps its long form
					key := a[:k]
					if len(alt) > len(key) {
						key = alt
					}
					swap[key] = false
				}
			}
			out = append(out, a)
			i++
			continue
		}
		break
	}
	if i >= len(args) {
		return out
	}
	cmd := args[i]
	canon := cmd
	if cmd == "register" {
		canon = "reg"
	}
	if cmd == "balance" {
		canon = "bal"
	}
	if alt, ok := vCmdAliases[cmd]; ok && next() {
		out = append(out, alt)
	} else {
		out = append(out, cmd)
	}
	i++
	vf, bf := vSubValueFlags[canon], vSubBoolAliases[canon]
	for i < len(args) {
		a := args[i]
		if alt, ok := vf[a]; ok && i+1 < len(args) {
			emit(a, alt, args[i+1], true)
			i += 2
			continue
		}
		if alt, ok := bf[a]; ok {
			emit(a, alt, "", false)
			i++
			continue
		}
		out = append(out, a) // anything else (sub-command words, other flags, positional arguments) is kept as it is
		i++
	}
	return out
}

// vRunBin runs the real binary as a separate process.
func vRunBin(inv vInvocation, timeout time.Duration) vRun {
	if vRealBin == "" {
		vFault("VERIF_BIN not set")
	}
	cmd := exec.Command(vRealBin, vSpellingVariant(inv.Args)...)
	env := []string{"PATH=/usr/bin:/bin", "HOME=" + vScratchDir()}
	tz := inv.TZ
	if tz == "" {
		tz = "UTC"
	}
	env = append(env, "TZ="+tz)
	for k, v := range inv.Env {
		env = append(env, k+"="+v)
	}
	cmd.Env = env
	cmd.Dir = inv.Cwd
	var so, se bytes.Buffer
	cmd.Stdout, cmd.Stderr = &so, &se
	if err := cmd.Start(); err != nil {
		vFault("cannot start real binary: %v", err)
	}
	done := make(chan error, 1)
	go func() { done <- cmd.Wait() }()
	var res vRun
	select {
	case err := <-done:
		if err != nil {
			res.Failed = true
			if ee, ok := err.(*exec.ExitError); ok {
				res.Exit = ee.ExitCode()
			} else {
				vFault("wait: %v", err)
			}
		}
	case <-time.After(timeout):
		_ = cmd.Process.Kill()
		<-done
		res.Failed = true
		res.Exit = -999 // timeout marker
	}
	res.Stdout, res.Stderr = so.String(), se.String()
	if res.Failed {
		res.Err = strings.TrimSpace(res.Stderr)
	}
	return res
}

// vWriteFile writes data under the shard's scratch directory and returns the path.
func vWriteFile(name string, data string) string {
	p := filepath.Join(vScratchDir(), name)
	if err := os.MkdirAll(filepath.Dir(p), 0o755); err != nil {
		vFault("mkdir: %v", err)
	}
	// The attributes of a file are part of the input space too (what a file says does not depend on its
	// permission bits or its time stamps); they are a pure function of the name and the content.
	_ = os.Remove(p)
	h := fnv.New32a()
	_, _ = h.Write([]byte(name))
	_, _ = h.Write([]byte(data))
	k := h.Sum32()
	mode := os.FileMode(0o644)
	if k%4 == 0 {
		mode = []os.FileMode{0o664, 0o666, 0o660, 0o600, 0o640, 0o444, 0o755, 0o622}[(k/4)%8]
	}
	if err := os.WriteFile(p, []byte(data), mode); err != nil {
		vFault("write %s: %v", p, err)
	}
	_ = os.Chmod(p, mode) // independent of the umask
	if (k/32)%4 == 0 {
		at := []time.Time{
			time.Unix(0, 0), time.Unix(1000000000, 0), time.Date(1985, 10, 26, 1, 21, 0, 0, time.UTC),
			time.Now().Add(time.Hour), time.Date(2100, 1, 1, 0, 0, 0, 0, time.UTC), time.Now().Add(-48 * time.Hour),
		}[(k/128)%6]
		_ = os.Chtimes(p, at, at)
	}
	return p
}
