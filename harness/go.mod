module github.com/aquilax/hranoprovod-cli/cmd/hranoprovod-cli/v3/verifharness

go 1.23

toolchain go1.23.5

require pgregory.net/rapid v1.3.0
