// Package verifharness only exists to bring pgregory.net/rapid into the build
// list of the external workspace that /verif/bin/check creates. All check code
// lives in mainpkg/ and is overlaid into package main of the CLI module.
package verifharness

import _ "pgregory.net/rapid"
